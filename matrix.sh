#!/bin/sh
# dev tool: run every seeded change against the quick tier of its property WITHOUT touching /repo:
# a scratch worktree of /repo HEAD gets the patch and is put in front of the import path (VERIF_REPO_OVERRIDE).
cd "$(dirname "$0")"
for d in $(ls -d seeded/C*); do
  id=$(basename $d); prop=$(echo $id | cut -d- -f1)
  wt=/tmp/mx_$id
  git -C /repo worktree add --detach $wt HEAD >/dev/null 2>&1
  if ! ( cd $wt && git apply /verif/$d/patch.diff 2>/dev/null ); then echo "$id: patch does not apply"; git -C /repo worktree remove --force $wt; continue; fi
  out=$(VERIF_REPO_OVERRIDE=$wt ./check $prop --tier quick 2>&1); rc=$?
  echo "$id rc=$rc $(echo "$out" | grep -c '^VIOLATION') violation lines; $(echo "$out" | grep 'violation oracle' | head -2 | cut -c1-140 | tr '\n' ' ')"
  git -C /repo worktree remove --force $wt
done

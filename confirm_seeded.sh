#!/bin/sh
# dev tool: confirm every seeded change in a scratch worktree of /repo HEAD:
#  demo passes on the clean tree, fails with the patch, and the pinned test-suite still passes with it.
# usage: ./confirm_seeded.sh [dir ...]   (default: all of /verif/seeded/*)
cd /verif
dirs="$@"; [ -z "$dirs" ] && dirs=$(ls -d seeded/*)
for d in $dirs; do
  wt=/tmp/confirm_$(basename $d)
  git -C /repo worktree add --detach $wt HEAD >/dev/null 2>&1
  ( cd $wt && PYTHONPATH=$wt CUDA_VISIBLE_DEVICES="" TF_CPP_MIN_LOG_LEVEL=3 timeout 600 /venv/bin/python /verif/$d/demo.py >/tmp/confirm_clean.log 2>&1 ); rc_clean=$?
  ( cd $wt && git apply /verif/$d/patch.diff ) || { echo "$d: patch does not apply"; git -C /repo worktree remove --force $wt; continue; }
  ( cd $wt && PYTHONPATH=$wt CUDA_VISIBLE_DEVICES="" TF_CPP_MIN_LOG_LEVEL=3 timeout 600 /venv/bin/python /verif/$d/demo.py >/tmp/confirm_mut.log 2>&1 ); rc_mut=$?
  tests=$( cd $wt && timeout 3000 /venv/bin/python -m pytest -q -p no:cacheprovider --timeout=900 --continue-on-collection-errors 2>&1 | tail -1 )
  echo "$d: demo clean rc=$rc_clean, with patch rc=$rc_mut; tests: $tests"
  /venv/bin/python - "$d" "$rc_clean" "$rc_mut" "$tests" <<'PY'
import json,sys,subprocess
d,rc_clean,rc_mut,tests=sys.argv[1:5]
p='/verif/%s/meta.json'%d
try: m=json.load(open(p))
except Exception: m={}
m['confirmation']={'repo_head':subprocess.check_output(['git','-C','/repo','rev-parse','--short','HEAD']).decode().strip(),
 'ran':['scratch worktree of /repo HEAD under /tmp (removed afterwards)','demo.py on the clean worktree','git apply patch.diff; demo.py again','pinned test-suite command with the patch applied'],
 'demo_exit_clean':int(rc_clean),'demo_exit_with_patch':int(rc_mut),'test_suite_with_patch':tests.strip(),
 'valid': int(rc_clean)==0 and int(rc_mut)==1 and '98 passed' in tests}
json.dump(m,open(p,'w'),indent=1)
PY
  git -C /repo worktree remove --force $wt
done

#!/bin/sh
# dev tool: thorough tier of every check, sequentially; one summary line per check
for p in C16 C10 C20 C18 C19 C03 C17 C05 C08; do
  start=$(date +%s)
  out=$(./check $p --tier thorough 2>&1); rc=$?
  echo "$p thorough rc=$rc wall=$(( $(date +%s) - start ))s $(echo "$out" | grep -E 'sessions=' | tail -1)"
  echo "$out" | grep -E 'VIOLATION|violation oracle|HARNESS|KNOWN' | cut -c1-300 | head -12
done

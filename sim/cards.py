"""Decay cards (configuration dicts) and model/data construction from a PRNG stream.

Pure-Python card construction (no TF) so that the parent can also call it; `build` needs TF.
"""
import copy


def card_S3(rs, n_res=None, models=None, floating=False):
    """spin-0 parent -> three pseudo-scalars, 2..3 single-resonance chains with natural J^P."""
    jps = [(0, 1), (1, -1), (2, 1)]
    slots = [("R_BC", ["B", "C"], "D", 1.2, 3.0), ("R_BD", ["B", "D"], "C", 1.3, 3.1), ("R_CD", ["C", "D"], "B", 0.9, 2.6)]
    n = n_res or rs.choice([2, 3, 3])
    slots = rs.shuffle(slots)[:n]
    slots.sort()
    decay = {"A": []}
    particle = {
        "$top": {"A": {"J": 0, "P": -1, "mass": 4.0}},
        "$finals": {
            "B": {"J": 0, "P": -1, "mass": 0.5},
            "C": {"J": 0, "P": -1, "mass": 0.6},
            "D": {"J": 0, "P": -1, "mass": 0.3},
        },
    }
    for name, dau, other, lo, hi in slots:
        decay["A"].append([name, other])
        decay[name] = list(dau)
        J, P = rs.choice(jps)
        m0 = round(rs.uniform(lo + 0.3, hi - 0.2), 3)
        g0 = round(rs.uniform(0.05, 0.4), 3)
        p = {"J": J, "P": P, "mass": m0, "width": g0}
        if models:
            p["model"] = rs.choice(models)
        if floating and rs.chance(0.5):
            p["float"] = rs.choice(["m", "g", "mg"])
        particle[name] = p
    return {"decay": decay, "particle": particle, "data": {"dat_order": ["B", "C", "D"]}}


def card_V3(rs, n_res=None):
    """J=1 parent, two spin-1 finals + pseudo-scalar, chains in different topologies."""
    slots = [("R_BC", ["B", "C"], "D", 4.1, 4.3), ("R_BD", ["B", "D"], "C", 2.3, 2.5), ("R_CD", ["C", "D"], "B", 2.3, 2.5)]
    n = n_res or rs.choice([2, 2, 3])
    slots = rs.shuffle(slots)[:n]
    slots.sort()
    decay = {"A": []}
    particle = {
        "$top": {"A": {"J": 1, "P": -1, "spins": [-1, 1], "mass": 4.6}},
        "$finals": {
            "B": {"J": 1, "P": -1, "mass": 2.00698},
            "C": {"J": 1, "P": -1, "mass": 2.01028},
            "D": {"J": 0, "P": -1, "mass": 0.13957},
        },
    }
    for name, dau, other, lo, hi in slots:
        decay["A"].append([name, other])
        decay[name] = list(dau)
        particle[name] = {"J": 1, "P": 1, "mass": round(rs.uniform(lo, hi), 3), "width": round(rs.uniform(0.03, 0.3), 3)}
    return {"decay": decay, "particle": particle, "data": {"dat_order": ["B", "C", "D"]}}


def card_H3(rs):
    """half-integer spins: A(1/2+) -> B(1/2+) C(0-) D(0-), weak decay (p_break) at the top."""
    decay = {"A": [["R_BC", "D", {"p_break": True}], ["R_CD", "B", {"p_break": True}]], "R_BC": ["B", "C"], "R_CD": ["C", "D"]}
    particle = {
        "$top": {"A": {"J": "1/2", "P": 1, "mass": 5.6}},
        "$finals": {
            "B": {"J": "1/2", "P": 1, "mass": 0.938},
            "C": {"J": 0, "P": -1, "mass": 0.494},
            "D": {"J": 0, "P": -1, "mass": 0.14},
        },
        "R_BC": {"J": rs.choice(["1/2", "3/2"]), "P": rs.choice([1, -1]), "mass": round(rs.uniform(1.5, 1.9), 3), "width": round(rs.uniform(0.02, 0.2), 3)},
        "R_CD": {"J": rs.choice([0, 1]), "P": 0, "mass": round(rs.uniform(0.8, 1.5), 3), "width": round(rs.uniform(0.05, 0.2), 3)},
    }
    particle["R_CD"]["P"] = 1 if particle["R_CD"]["J"] == 0 else -1
    return {"decay": decay, "particle": particle, "data": {"dat_order": ["B", "C", "D"]}}


def card_C4(rs):
    """four-body cascade, two topologies."""
    decay = {
        "A": [["R_BC", "R_DE"], ["R_BCD", "E"]],
        "R_BC": ["B", "C"],
        "R_DE": ["D", "E"],
        "R_BCD": [["R_BC", "D"]],
    }
    particle = {
        "$top": {"A": {"J": 0, "P": -1, "mass": 5.0}},
        "$finals": {
            "B": {"J": 0, "P": -1, "mass": 0.5},
            "C": {"J": 0, "P": -1, "mass": 0.14},
            "D": {"J": 0, "P": -1, "mass": 0.14},
            "E": {"J": 0, "P": -1, "mass": 0.5},
        },
        "R_BC": {"J": 1, "P": -1, "mass": round(rs.uniform(0.8, 1.2), 3), "width": 0.1},
        "R_DE": {"J": 1, "P": -1, "mass": round(rs.uniform(0.9, 1.3), 3), "width": 0.12},
        "R_BCD": {"J": 1, "P": -1, "mass": round(rs.uniform(1.5, 2.5), 3), "width": 0.2},
    }
    return {"decay": decay, "particle": particle, "data": {"dat_order": ["B", "C", "D", "E"]}}


def card_C4s(rs):
    """four-body: two R1 states recoiling against the SAME R2 -> D E decay (one Decay object shared by two
    chains) whose spin-1 daughter gives it two (l,s) couplings"""
    decay = {"A": [["R1a", "R2"], ["R1b", "R2"]], "R1a": ["B", "C"], "R1b": ["B", "C"], "R2": ["D", "E"]}
    particle = {
        "$top": {"A": {"J": 1, "P": -1, "mass": 5.0}},
        "$finals": {
            "B": {"J": 0, "P": -1, "mass": 0.2},
            "C": {"J": 0, "P": -1, "mass": 0.3},
            "D": {"J": 1, "P": -1, "mass": 0.4},
            "E": {"J": 0, "P": -1, "mass": 0.5},
        },
        "R1a": {"J": 1, "P": -1, "mass": round(rs.uniform(1.3, 1.7), 3), "width": 0.3},
        "R1b": {"J": 1, "P": -1, "mass": round(rs.uniform(1.9, 2.3), 3), "width": 0.4},
        "R2": {"J": 1, "P": 1, "mass": round(rs.uniform(1.5, 2.0), 3), "width": 0.3},
    }
    return {"decay": decay, "particle": particle, "data": {"dat_order": ["B", "C", "D", "E"]}}


CARDS = {"S3": card_S3, "V3": card_V3, "H3": card_H3, "C4": card_C4, "C4s": card_C4s}


def make_card(rs, kind=None, **kw):
    kind = kind or rs.weighted([("S3", 5), ("V3", 2), ("H3", 1), ("C4", 1), ("C4s", 1)])
    c = CARDS[kind](rs, **kw)
    c["_kind"] = kind
    return c


def strip(card):
    c = copy.deepcopy(card)
    c.pop("_kind", None)
    return c


# ---------------------------------------------------------------- needs TF / tf_pwa from here


def build(card, data_opts=None, vm=None):
    from tf_pwa.config_loader import ConfigLoader

    c = strip(card)
    if data_opts:
        c.setdefault("data", {}).update(data_opts)
    from sim.seams import rng_seam

    with rng_seam(12345):  # initial parameter values drawn by the library come from the seam
        config = ConfigLoader(c, vm=vm) if vm is not None else ConfigLoader(c)
        config.get_amplitude()
    return config


def seeded_phsp(config, n, seed):
    """phase-space events of the card through the library's own generator under the rng seam"""
    from sim.seams import rng_seam

    with rng_seam(seed):
        return config.generate_phsp(n)


def seeded_phsp_p(config, n, seed):
    from sim.seams import rng_seam

    with rng_seam(seed):
        return config.generate_phsp_p(n)


def randomize_params(amp, rs, scale=1.0, p_neg=0.0):
    """seeded parameter point: every free parameter gets an absolute seeded value (the library's own
    initial values come from a real RNG and must not leak into a simulated session)"""
    vals = {}
    for name in amp.vm.trainable_vars:
        if name.endswith("_mass") or name.endswith("_width"):
            continue
        vals[name] = round(scale * rs.uniform(-1, 1) + (1.0 if name.endswith("r") else 0.0), 6)
        if p_neg and name.endswith("r") and rs.chance(p_neg):
            vals[name] = -abs(vals[name])  # a negative magnitude is a legal point (phase shifted by pi)
    amp.set_params(vals)
    return vals


# ---------------------------------------------------------------- models built through the particle/decay API


def api_spec(rs):
    """a J=1 three-body decay group built with get_particle/get_decay; two B C resonances that either carry
    the documented name:id form of ONE base name or two distinct names"""
    ids = rs.chance(0.6)
    return {
        "names": ["R_BC:1", "R_BC:2"] if ids else ["R_BC", "R_BC2"],
        "m": [round(rs.uniform(2.2, 2.4), 3), round(rs.uniform(2.4, 2.6), 3), round(rs.uniform(2.2, 2.5), 3), round(rs.uniform(4.1, 4.3), 3)],
        "g": [0.1, 0.15, 0.1, 0.2],
    }


class ApiModel:
    """duck-types the little of ConfigLoader the sessions use: get_amplitude(), phase space, cal_angle"""

    def __init__(self, spec):
        from tf_pwa.amp import AmplitudeModel, DecayGroup, get_decay, get_particle
        from tf_pwa.variable import VarsManager

        from sim.seams import rng_seam

        a = get_particle("A", J=1, P=-1, mass=4.6, spins=(-1, 1))
        b = get_particle("B", J=1, P=-1, mass=2.0)
        c = get_particle("C", J=0, P=-1, mass=0.14)
        d = get_particle("D", J=1, P=-1, mass=2.0)
        r1 = get_particle(spec["names"][0], J=1, P=1, mass=spec["m"][0], width=spec["g"][0])
        r2 = get_particle(spec["names"][1], J=1, P=1, mass=spec["m"][1], width=spec["g"][1])
        r3 = get_particle("R_CD", J=1, P=1, mass=spec["m"][2], width=spec["g"][2])
        r4 = get_particle("R_BD", J=1, P=-1, mass=spec["m"][3], width=spec["g"][3])
        for r, (x, y), z in [(r1, (b, c), d), (r2, (b, c), d), (r3, (c, d), b), (r4, (b, d), c)]:
            get_decay(a, [r, z])
            get_decay(r, [x, y])
        self.finals = [b, c, d]
        self.dg = DecayGroup(a.chain_decay())
        with rng_seam(777):
            self.amp = AmplitudeModel(self.dg, vm=VarsManager(dtype="float64"))

    def get_amplitude(self):
        return self.amp

    def phsp(self, n, seed):
        from tf_pwa.cal_angle import cal_angle_from_momentum
        from tf_pwa.phasespace import PhaseSpaceGenerator

        from sim.seams import rng_seam

        with rng_seam(seed):
            p4 = PhaseSpaceGenerator(4.6, [2.0, 0.14, 2.0]).generate(n)
        return cal_angle_from_momentum(dict(zip(self.finals, p4)), self.dg)

"""Worker-side environment: bootstrap, run isolation, event log / digest, scratch dirs."""
import gc
import hashlib
import json
import math
import os
import shutil
import sys
import tempfile

_BOOT = {}


def bootstrap():
    """Import numpy/TensorFlow/tf_pwa exactly once, with the documented environment adaptation."""
    if _BOOT:
        return
    import numpy

    if not hasattr(numpy, "Inf"):  # NumPy 2 removed the alias tf_pwa/fit_improve.py:101 needs
        numpy.Inf = numpy.inf
    import tensorflow as tf

    try:
        tf.config.threading.set_intra_op_parallelism_threads(1)
        tf.config.threading.set_inter_op_parallelism_threads(1)
    except Exception:
        pass
    import tf_pwa  # noqa
    import tf_pwa.config as tconf
    import tf_pwa.amp  # noqa
    import tf_pwa.applications  # noqa
    import tf_pwa.config_loader  # noqa
    import tf_pwa.experimental.build_amp  # noqa
    import tf_pwa.experimental.wrap_function  # noqa
    import tf_pwa.fit  # noqa
    import tf_pwa.fitfractions  # noqa
    import tf_pwa.generator  # noqa
    import tf_pwa.model  # noqa
    import tf_pwa.model.opt_int  # noqa
    import tf_pwa.phasespace  # noqa

    _BOOT["config_snapshot"] = dict(_config_dict())
    _BOOT["tf"] = tf
    _BOOT["containers"] = _snapshot_containers()
    import matplotlib

    matplotlib.use("Agg")


def _config_dict():
    """The process-global ConfigManager dict of tf_pwa.config (closure variable of get_config)."""
    import tf_pwa.config as tconf

    for cell in tconf.get_config.__closure__ or ():
        v = cell.cell_contents
        if isinstance(v, dict):
            return v
    raise RuntimeError("cannot locate tf_pwa config dict")


def _snapshot_containers():
    """Every mutable container that lives at module level or class level in tf_pwa (registries, class-level
    caches, mutable defaults of functions): their import-time content is what a fresh interpreter would see.
    Returned as [(container, shallow copy)] so that isolate_begin can put the content back IN PLACE."""
    import types

    out, seen = [], set()

    def add(c):
        if type(c) in (dict, list, set) and id(c) not in seen:
            seen.add(id(c))
            out.append((c, type(c)(c)))

    def add_func(f):
        for d in (getattr(f, "__defaults__", None) or ()):
            add(d)
        for d in (getattr(f, "__kwdefaults__", None) or {}).values():
            add(d)

    cfg = _config_dict()
    seen.add(id(cfg))  # handled on its own (config snapshot)
    for n, m in sorted(sys.modules.items()):
        if not n.startswith("tf_pwa") or m is None or ".tests" in n:
            continue
        for name, obj in list(vars(m).items()):
            if name.startswith("__"):
                continue
            add(obj)
            if isinstance(obj, types.FunctionType) and getattr(obj, "__module__", "").startswith("tf_pwa"):
                add_func(obj)
            if isinstance(obj, type) and getattr(obj, "__module__", "").startswith("tf_pwa"):
                for k, v in list(vars(obj).items()):
                    if k.startswith("__") and k not in ("__init__", "__call__"):
                        continue
                    add(v)
                    f = v.__func__ if isinstance(v, (staticmethod, classmethod)) else v
                    if isinstance(f, types.FunctionType):
                        add_func(f)
    return out


def _restore_containers():
    n = 0
    for c, snap in _BOOT.get("containers", ()):
        if c != snap:
            n += 1
            if isinstance(c, list):
                c[:] = snap
            else:
                c.clear()
                c.update(snap)
    return n


def _clear_lru():
    import functools

    mods = [m for n, m in list(sys.modules.items()) if n.startswith("tf_pwa") and m is not None]
    seen = 0
    for m in mods:
        for name in dir(m):
            try:
                obj = getattr(m, name)
            except Exception:
                continue
            cands = [obj]
            if isinstance(obj, type):
                cands = [v for v in vars(obj).values()]
            for c in cands:
                cc = getattr(c, "cache_clear", None)
                if cc is not None and callable(cc):
                    # keep pure maths caches (dfun/cg): they are value caches of pure functions
                    try:
                        cc()
                        seen += 1
                    except Exception:
                        pass
    return seen


def isolate_begin():
    """Make a run independent of the runs executed earlier in this worker."""
    import tf_pwa.config as tconf
    from tf_pwa.variable import VarsManager

    d = _config_dict()
    snap = _BOOT["config_snapshot"]
    for k in list(d.keys()):
        if k not in snap:
            del d[k]
    for k, v in snap.items():
        d[k] = v
    d["vm"] = VarsManager(dtype="float64")
    from sim.seams import ID_SEAM

    if not ID_SEAM.installed:
        ID_SEAM.install()
    ID_SEAM.reset()
    _clear_lru()
    _restore_containers()
    gc.collect()


def isolate_end():
    isolate_begin()


class Scratch:
    def __init__(self, tag="run"):
        base = os.environ.get("VERIF_TMP") or ("/dev/shm" if os.path.isdir("/dev/shm") else tempfile.gettempdir())
        self.path = tempfile.mkdtemp(prefix="tfpwa_verif_%s_" % tag, dir=base)
        self.old = os.getcwd()

    def __enter__(self):
        os.chdir(self.path)
        return self.path

    def __exit__(self, *a):
        os.chdir(self.old)
        shutil.rmtree(self.path, ignore_errors=True)


def canon(x):
    """Canonical JSON-able form: exact for floats/arrays (hex / sha256 of bytes), ordered for dicts."""
    import numpy as np

    if x is None or isinstance(x, (bool, int, str)):
        return x
    if isinstance(x, float):
        if math.isnan(x):
            return "nan"
        return float(x).hex()
    if isinstance(x, complex):
        return [canon(x.real), canon(x.imag)]
    if isinstance(x, (np.floating,)):
        return canon(float(x))
    if isinstance(x, (np.integer,)):
        return int(x)
    if isinstance(x, (np.bool_,)):
        return bool(x)
    if isinstance(x, np.ndarray):
        a = np.ascontiguousarray(x)
        return {"nd": list(a.shape), "dt": str(a.dtype), "h": hashlib.sha256(a.tobytes()).hexdigest()[:16]}
    if hasattr(x, "numpy") and callable(x.numpy):
        try:
            return canon(x.numpy())
        except Exception:
            return str(type(x))
    if isinstance(x, dict):
        return {str(k): canon(v) for k, v in sorted(x.items(), key=lambda kv: str(kv[0]))}
    if isinstance(x, (list, tuple)):
        return [canon(v) for v in x]
    if isinstance(x, (set, frozenset)):
        return sorted(canon(v) for v in x)
    return str(x)


class Log:
    """Event log of one simulated session.  Never draws randomness, never reads a clock."""

    def __init__(self, seed=None, prop=None):
        self.events = []
        self.failures = []
        self.counters = {}
        self.states = set()
        if seed is not None:
            self.ev("seed", seed=seed, prop=prop)

    def ev(self, _evkind, **data):
        self.events.append([_evkind, canon(data)])

    def count(self, name, n=1):
        self.counters[name] = self.counters.get(name, 0) + n

    def state(self, *x):
        self.states.add(hashlib.sha256(json.dumps(canon(list(x)), sort_keys=True).encode()).hexdigest()[:12])

    def fail(self, oracle, key, detail, step=None):
        """oracle: oracle id; key: stable identity of what failed (op kind / site / fault class)"""
        f = {"oracle": oracle, "key": key, "detail": str(detail)[:4000], "step": step}
        self.failures.append(f)
        self.ev("FAIL", oracle=oracle, key=key, step=step)
        return f

    def digest(self):
        return hashlib.sha256(json.dumps(self.events, sort_keys=True).encode()).hexdigest()[:20]

    def result(self, **extra):
        out = {
            "failures": self.failures,
            "digest": self.digest(),
            "counters": self.counters,
            "steps": len(self.events),
            "states": sorted(self.states),
        }
        out.update(extra)
        return out

"""Deterministic PRNG tree.  One integer (VERIF_SEED) decides everything.

SplitMix64 streams, labelled children derived through sha256 so that the derivation does not
depend on PYTHONHASHSEED.  No use of the `random` module, numpy RNG or clocks.
"""
import hashlib
import math

MASK = (1 << 64) - 1


def _mix(z):
    z = (z + 0x9E3779B97F4A7C15) & MASK
    z = ((z ^ (z >> 30)) * 0xBF58476D1CE4E5B9) & MASK
    z = ((z ^ (z >> 27)) * 0x94D049BB133111EB) & MASK
    return z ^ (z >> 31)


def derive(seed, *labels):
    h = hashlib.sha256()
    h.update(str(int(seed)).encode())
    for l in labels:
        h.update(b"/")
        h.update(str(l).encode())
    return int.from_bytes(h.digest()[:8], "big")


class Stream:
    def __init__(self, seed, *labels):
        self.seed0 = derive(seed, *labels) if labels else (int(seed) & MASK)
        self.state = self.seed0
        self.draws = 0

    def child(self, *labels):
        return Stream(self.seed0, *labels)

    def u64(self):
        self.state = (self.state + 0x9E3779B97F4A7C15) & MASK
        z = self.state
        z = ((z ^ (z >> 30)) * 0xBF58476D1CE4E5B9) & MASK
        z = ((z ^ (z >> 27)) * 0x94D049BB133111EB) & MASK
        self.draws += 1
        return z ^ (z >> 31)

    def random(self):
        return (self.u64() >> 11) * (1.0 / (1 << 53))

    def uniform(self, a, b):
        return a + (b - a) * self.random()

    def randint(self, a, b):
        """inclusive both ends"""
        n = b - a + 1
        if n <= 0:
            raise ValueError("empty range")
        return a + self.u64() % n

    def randrange(self, n):
        return self.u64() % n

    def chance(self, p):
        return self.random() < p

    def choice(self, seq):
        seq = list(seq)
        return seq[self.u64() % len(seq)]

    def weighted(self, pairs):
        """pairs: list of (item, weight)"""
        tot = float(sum(w for _, w in pairs))
        x = self.random() * tot
        acc = 0.0
        for it, w in pairs:
            acc += w
            if x < acc:
                return it
        return pairs[-1][0]

    def shuffle(self, lst):
        lst = list(lst)
        for i in range(len(lst) - 1, 0, -1):
            j = self.u64() % (i + 1)
            lst[i], lst[j] = lst[j], lst[i]
        return lst

    def sample(self, seq, k):
        return self.shuffle(seq)[:k]

    def subset(self, seq, pmin=0.0, pmax=1.0):
        p = self.uniform(pmin, pmax)
        return [x for x in seq if self.random() < p]

    def normal(self):
        u1 = max(self.random(), 1e-300)
        u2 = self.random()
        return math.sqrt(-2.0 * math.log(u1)) * math.cos(2 * math.pi * u2)

    def floats(self, n):
        return [self.random() for _ in range(n)]

"""C17 — temporary overrides and derived computations leave the model unchanged.

Simulated session: one model (card x strategy), data objects A, B (user data) and P (probe).
Operations are nested override blocks, read-only computations, evaluations and (top level only)
permanent changes.  Faults: an exception injected through the `exc` seam at a chosen Python line
event inside tf_pwa/ during one operation, or raised by the user body of a block.

Oracle (history check): state at exit of every block/computation - normal or exceptional -
equals the state at its entry: parameter values bitwise, set of active chains, density of every
data object (eager reference taken at entry vs. the public call path at exit), watched global
configuration values.
"""
import copy
import json

from sim import cards
from sim.prng import Stream

COMPUTE = [
    "partial_weight",
    "partial_weight_combine",
    "partial_weight_interference",
    "cal_fitfractions",
    "cal_fitfractions_no_grad",
    "fit_fractions_old",
    "fit_fractions_new",
    "ff_integral",
    "ff_reuse",
    "factor_iteration",
    "config_cal_fitfractions",
    "build_amp_matrix",
    "build_angle_amp_matrix",
    "build_int_matrix",
]
BLOCKS = [
    "amp.temp_params",
    "amp.temp_params_list",
    "vm.temp_params",
    "amp.mask_params",
    "vm.mask_params",
    "config.mask_params",
    "amp.temp_used_res",
    "dg.temp_used_res",
    "temp_total_gls_one",
    "temp_config",
    "variable_scope",
]
PERM = ["set_params", "set_used_res", "set_used_chains", "reset_chains"]
STRATEGIES = {
    "default": {},
    "tf_function": {"use_tf_function": True},
    "no_id_cached": {"use_tf_function": True, "no_id_cached": True},
    "cached_amp": {"amp_model": "cached_amp", "preprocessor": "cached_amp"},
    "base_factor": {"amp_model": "base_factor"},
}
HELPER_FILES = ("amp/amp.py", "fitfractions.py", "applications.py", "variable.py", "config.py", "config_loader/config_loader.py")
HELPER_FUNCS = ("temp_used_res", "set_used_res", "set_used_chains", "add_used_chains", "partial_weight", "partial_weight_interference", "factor_iteration", "variable_scope")

RULE = (
    "sessions are generated from the seed: card x strategy x nested operation list x fault (kind, operation, dynamic line "
    "index resolved by a dry run); enumeration jobs inject at every distinct (file,line) site of the helper layer (first/last "
    "occurrence) and at sampled deep sites. A session is non-trivial if it has >= 2 state-changing operations (blocks or "
    "selection/parameter-changing computations) and, in fault sub-batches, its fault fired inside an operation; distinct = "
    "distinct event-log digests."
)


# ------------------------------------------------------------------------------- plan (parent)


def plan(tier, seed):
    jobs = []
    if tier == "quick":
        n_hist, n_fault, enum_cards = 40, 70, [("S3", "default")]
        enum_budget = 20
        traced = 4
    else:
        n_hist, n_fault, enum_cards = 1000, 2400, [("S3", "default"), ("V3", "default"), ("C4s", "default"), ("S3", "cached_amp"), ("H3", "default")]
        enum_budget = 260  # helper-layer sites completely (first/last occurrence), deep sites sampled up to this number
        traced = 100
    i = 0
    kinds = [None, None, "C4s", None, "C4", None, "V3", None, "C4s", "H3"]  # every card family gets its share
    for k in range(n_hist):
        jobs.append({"mode": "seed", "kind": "history", "seed": seed * 1000003 + i, "faults": 0, "card_kind": kinds[k % len(kinds)]})
        i += 1
    for k in range(n_fault):
        jobs.append({"mode": "seed", "kind": "history", "seed": seed * 1000003 + i, "faults": 1 if k % 4 else 2, "card_kind": kinds[k % len(kinds)]})
        i += 1
    for k in range(traced):
        jobs.append({"mode": "seed", "kind": "traced", "seed": seed * 1000003 + i, "faults": k % 2, "timeout": 240})
        i += 1
    for card, strat in enum_cards:
        units = enum_units()
        for u in range(len(units)):
            jobs.append({"mode": "seed", "kind": "enum", "seed": seed * 1000003 + i, "card_kind": card, "strategy": strat, "unit": u, "max_inject": enum_budget, "timeout": 1500 if tier != "quick" else 200})
            i += 1
    # long jobs first so that the tail is short
    jobs.sort(key=lambda j: {"enum": 0, "traced": 1, "history": 2}[j["kind"]])
    return {
        "jobs": jobs,
        "timeout": 150,
        "budget_s": 100 if tier == "quick" else 3000,
        "level": "fault_enumeration",
        "rule": RULE,
        "min_executed": 40,
        "real_vs_stub": {
            "real": "tf_pwa (all modules), TensorFlow eager and tf.function execution, ConfigLoader",
            "simulated": "exception delivery (sys.settrace line events inside tf_pwa/), random numbers for data generation (rng seam)",
            "stub": "none",
        },
        "assumptions": [
            "exceptions are injected only at Python line boundaries inside tf_pwa/ (a failure inside a native kernel is represented by an exception at the calling line)",
            "permanent changes are generated only at top level, never inside a block body (the property does not say what a block must do with them)",
        ],
    }


def enum_units():
    """Each unit is an operation tree that gets its sites enumerated."""
    units = []
    for c in COMPUTE:
        units.append([{"k": c}])
    for b in BLOCKS:
        units.append([{"k": b, "body": [{"k": "eval", "d": "A"}]}])
    # computations inside blocks (restore to previous selection, not to 'all')
    units.append([{"k": "amp.temp_used_res", "body": [{"k": "cal_fitfractions"}]}])
    units.append([{"k": "dg.temp_used_res", "body": [{"k": "partial_weight"}]}])
    units.append([{"k": "amp.temp_params", "body": [{"k": "fit_fractions_old"}]}])
    units.append([{"k": "vm.mask_params", "body": [{"k": "amp.temp_params", "body": [{"k": "eval", "d": "A"}]}]}])
    units.append([{"k": "amp.temp_used_res", "body": [{"k": "amp.temp_used_res", "body": [{"k": "eval", "d": "B"}]}]}])
    return units


# ------------------------------------------------------------------------------- generation


def gen_op(rs, depth, allow_block=True, enabled=None):
    kinds = []
    comp = [c for c in COMPUTE if enabled is None or c in enabled]
    blk = [b for b in BLOCKS if enabled is None or b in enabled]
    if comp:
        kinds.append(("compute", 4))
    kinds.append(("eval", 3))
    if allow_block and depth < 3 and blk:
        kinds.append(("block", 4))
    t = rs.weighted(kinds)
    if t == "eval":
        return {"k": "eval", "d": rs.choice(["A", "A", "B"])}
    if t == "compute":
        op = {"k": rs.choice(comp)}
        op.update(op_args(op["k"], rs))
        return op
    op = {"k": rs.choice(blk)}
    op.update(op_args(op["k"], rs))
    nb = rs.randint(0, 3 if depth == 0 else 2)
    op["body"] = [gen_op(rs, depth + 1, True, enabled) for _ in range(nb)]
    if rs.chance(0.15):
        op["raise"] = True
        if depth > 0 and rs.chance(0.5):
            op["catch"] = True
    return op


def op_args(k, rs):
    a = {}
    if k in ("amp.temp_params", "amp.temp_params_list", "vm.temp_params", "amp.mask_params", "vm.mask_params", "config.mask_params", "set_params", "fit_fractions_old", "fit_fractions_new", "config_cal_fitfractions"):
        n = rs.randint(1, 3)
        a["p"] = [[rs.randrange(1000), round(rs.uniform(-2, 2), 4)] for _ in range(n)]
        if k.startswith("fit_fractions") or k.startswith("config_cal") and rs.chance(0.3):
            if rs.chance(0.3):
                a["p"] = []
    if k in ("amp.temp_used_res", "dg.temp_used_res", "set_used_res"):
        a["res"] = [rs.randrange(1000) for _ in range(rs.randint(1, 2))]
    if k == "set_used_chains":
        a["chains"] = [rs.randrange(1000) for _ in range(rs.randint(1, 2))]
    if k == "partial_weight_combine":
        a["combine"] = [[rs.randrange(1000) for _ in range(rs.randint(1, 2))] for _ in range(rs.randint(1, 2))]
    if k in ("cal_fitfractions", "cal_fitfractions_no_grad", "fit_fractions_old", "fit_fractions_new", "ff_integral", "ff_reuse", "config_cal_fitfractions"):
        a["batch"] = rs.choice([None, 4, 5, 100]) if k in ("cal_fitfractions", "cal_fitfractions_no_grad", "ff_integral", "ff_reuse") else rs.choice([4, 5, 100])
        a["res_sub"] = rs.chance(0.3)
    if k == "factor_iteration":
        a["deep"] = rs.choice([1, 2, 2, 3])
    if k == "temp_config":
        a["name"] = rs.choice(["polar", "multi_gpus", "dtype"])
    if k in COMPUTE or k in BLOCKS:
        a["d"] = rs.choice(["A", "B"])
    return a


def generate(job):
    rs = Stream(job["seed"], "C17")
    kind = job.get("kind", "history")
    rm, rk, ro, rf = rs.child("model"), rs.child("knobs"), rs.child("ops"), rs.child("faults")
    if kind == "enum":
        card = cards.make_card(rm, job.get("card_kind", "S3"), **({"n_res": 2} if job.get("card_kind", "S3") in ("S3", "V3") else {}))  # C4s / H3 / C4 take no n_res
        return {
            "kind": "enum",
            "card": card,
            "strategy": job.get("strategy", "default"),
            "nA": 6,
            "nB": 9,
            "nP": 5,
            "data_seed": rk.randrange(1 << 30),
            "param_seed": rk.randrange(1 << 30),
            "ops": copy.deepcopy(enum_units()[job["unit"]]),
            "unit": job["unit"],
            "max_inject": job.get("max_inject", 0),
            "inject_seed": rf.randrange(1 << 30),
        }
    if kind == "traced":
        card = cards.make_card(rm, "S3", n_res=2)
        strategy = rk.choice(["tf_function", "no_id_cached"])
    else:
        card = cards.make_card(rm, job.get("card_kind"))
        strategy = rk.weighted([("default", 6), ("cached_amp", 1), ("base_factor", 1)])
    # swarm: a per-run random subset of operation kinds
    enabled = set(rk.sample(COMPUTE, rk.randint(2, len(COMPUTE)))) | set(rk.sample(BLOCKS, rk.randint(2, len(BLOCKS))))
    if job.get("card_kind") in ("C4s", "C4"):
        # cards whose chains share a decay / a resonance: the flag- and selection-based overrides matter most
        enabled |= {"temp_total_gls_one", "amp.temp_used_res", "cal_fitfractions"}
    nops = rk.randint(3, 7 if kind == "history" else 5)
    ops = []
    for _ in range(nops):
        if ro.chance(0.2):
            k = ro.choice(PERM)
            op = {"k": k}
            op.update(op_args(k, ro))
            ops.append(op)
        else:
            ops.append(gen_op(ro, 0, True, enabled))
    if kind == "history" and rk.chance(0.2):
        # directed template: a long-lived FitFractions object is evaluated, the chain selection changes
        # (permanently or inside a block), and the same object is evaluated again
        first = {"k": "ff_reuse"}
        first.update(op_args("ff_reuse", ro))
        again = {"k": "ff_reuse"}
        again.update(op_args("ff_reuse", ro))
        if rk.chance(0.5):
            sel = {"k": "set_used_res"}
            sel.update(op_args("set_used_res", ro))
            ops = [first, sel, again] + ops[:3]
        else:
            blk = rk.choice(["amp.temp_used_res", "dg.temp_used_res"])
            bop = {"k": blk, "body": [again]}
            bop.update(op_args(blk, ro))
            ops = [first, bop] + ops[:3]
    if kind == "traced":
        # directed template: second sight of a data object happens inside an override block
        tmpl = rk.randrange(3)
        blk = rk.choice(["amp.mask_params", "vm.mask_params", "amp.temp_params", "amp.temp_used_res", "temp_total_gls_one"])
        op = {"k": blk, "body": [{"k": "eval", "d": "A"}, {"k": "eval", "d": "A"}]}
        op.update(op_args(blk, ro))
        if tmpl == 0:
            ops = [{"k": "eval", "d": "A"}, op] + ops[:2]
        elif tmpl == 1:
            ops = [op] + ops[:2]
        else:
            ops = ops[:2] + [op]
    spec = {
        "kind": kind,
        "card": card,
        "strategy": strategy,
        "nA": rk.choice([4, 6, 9]),
        "nB": rk.choice([5, 7]),
        "nP": 3,
        "data_seed": rk.randrange(1 << 30),
        "param_seed": rk.randrange(1 << 30),
        "ops": ops,
        "faults": [],
    }
    if kind == "history" and card.get("_kind", job.get("card_kind")) in (None, "S3") and rk.chance(0.25):
        # a parameter that is DEFINED through another one (constrains: from_trans): the value the model sees is a
        # transform of the stored variable
        res = sorted(n for n, v in card["particle"].items() if isinstance(v, dict) and n.startswith("R_") and "width" in v)
        if len(res) >= 2:
            card = copy.deepcopy(card)
            card.setdefault("constrains", {})["from_trans"] = {res[1] + "_width": {"x": res[0] + "_width", "model": "linear", "k": 2.0, "b": 0.1}}
            spec["card"] = card
            # directed: the transformed parameter is overridden inside a variable-manager block
            blk = {"k": "vm.temp_params", "p": [[0, 0.5]], "d": "A", "body": [{"k": "eval", "d": "A"}], "names": [res[1] + "_width"]}
            spec["ops"] = spec["ops"][:2] + [blk] + spec["ops"][2:]
    if kind == "history" and rk.chance(0.15):
        # the state a Newton-CG / trust-* fit (or an aborted fit) leaves behind: bounds still installed in the
        # variable manager (fit_scipy removes them only on the BFGS/CG path)
        spec["installed_bounds"] = [[rk.randrange(1000), rk.choice(["two", "lower", "upper"])] for _ in range(rk.randint(1, 2))]
    nf = job.get("faults", 0)
    if nf:
        # resolve fault positions with a dry run of the same schedule on a fresh model
        counts = execute(spec, dry=True)["op_events"]
        # faults go into blocks and computations only: a permanent change interrupted half-way is not
        # something the property speaks about
        cand = [i for i, c in enumerate(counts) if c > 0 and spec["ops"][i]["k"] not in PERM]
        for _ in range(nf):
            if not cand:
                break
            i = rf.choice(cand)
            pos = 1 + rf.randrange(counts[i])
            # bias: half of the faults land in the last 20% or first 20% of the operation
            b = rf.random()
            if b < 0.25:
                pos = 1 + rf.randrange(max(1, counts[i] // 5))
            elif b < 0.5:
                pos = counts[i] - rf.randrange(max(1, counts[i] // 5))
            spec["faults"].append({"op": i, "pos": int(pos), "kind": "interrupt" if rf.chance(0.2) else "exc"})
        # at most one fault per top-level operation
        seen = set()
        spec["faults"] = [f for f in spec["faults"] if not (f["op"] in seen or seen.add(f["op"]))]
    return spec




# ------------------------------------------------------------------------------- execution


class UserRaise(Exception):
    pass


class _NoTracer:
    fired = None
    n = 0

    def pause(self):
        import contextlib

        return contextlib.nullcontext()


_DATA_CACHE = {}


class Session:
    def __init__(self, spec, log):
        import numpy as np

        from sim.seams import rng_seam

        self.np = np
        self.spec = spec
        self.log = log
        self.config = cards.build(spec["card"], STRATEGIES[spec["strategy"]])
        self.amp = self.config.get_amplitude()
        self.dg = self.amp.decay_group
        self.vm = self.amp.vm
        cards.randomize_params(self.amp, Stream(spec["param_seed"], "params"), 0.7)
        ck = json.dumps([spec["card"], spec["strategy"], spec["data_seed"], spec["nA"], spec["nB"]], sort_keys=True)
        if ck in _DATA_CACHE and "preprocessor" not in STRATEGIES[spec["strategy"]]:
            self.data = dict(_DATA_CACHE[ck])
        else:
            # the samples always come from a SEPARATE, equal ConfigLoader instance: their dictionary keys are equal
            # to, never identical with, the session's particle objects - on a cache hit and on a miss alike, so
            # the number of traced line events (Particle.__eq__ behind dict look-ups) does not depend on what
            # this worker ran before
            self.data = {}
            gen_cfg = cards.build(spec["card"], STRATEGIES[spec["strategy"]])
            with rng_seam(spec["data_seed"]):
                for name in ("A", "B"):
                    self.data[name] = gen_cfg.generate_phsp(spec["n" + name])
            _DATA_CACHE.clear()
            _DATA_CACHE[ck] = dict(self.data)
        self.traced = "use_tf_function" in STRATEGIES[spec["strategy"]]
        self.names = list(self.amp.get_params().keys())
        self.free = list(self.vm.trainable_vars)
        for idx, side in spec.get("installed_bounds", []):
            n = self.free[idx % len(self.free)]
            v = float(self.amp.get_params()[n])
            rng = {"two": (v - 1.0, v + 1.5), "lower": (v - 1.0, None), "upper": (None, v + 1.5)}[side]
            self.vm.set_bound({n: rng})
            log.count("probe.session_with_bounds_left_installed")
        self.nchains = len(list(self.dg.chains))
        self.resnames = [str(r) for r in self.dg.resonances]
        self.op_events = []
        self.dead = False
        self.tr = _NoTracer()
        self.changing_ops = 0
        self.last_S = None
        self.light = False  # dry runs of untraced strategies skip the oracle (it cannot influence the model)

    # ---- observation -------------------------------------------------------------------
    def snapshot(self, call=False):
        import tf_pwa.config as tconf

        np = self.np
        with self.tr.pause():
            S = {}
            S["params"] = {k: float(v) for k, v in self.amp.get_params().items()}
            S["chains"] = sorted(set(int(i) for i in self.dg.chains_idx))
            S["config"] = {k: (str(tconf.get_config(k)) if k != "vm" else id(tconf.get_config(k))) for k in ("polar", "multi_gpus", "dtype", "vm")}
            S["dens"] = {n: np.array(self.amp.pdf(d)) for n, d in self.data.items()}
            if call and self.traced:  # without tf.function the call path *is* pdf()
                S["call"] = {n: np.array(self.amp(d)) for n, d in self.data.items()}
        return S

    def compare(self, S0, S1, opk):
        np = self.np
        bad = []
        if S0["params"] != S1["params"]:
            # parameters tied through a pre_trans / from_trans transform are restored through the inverse
            # transform: equal up to rounding (a few ulp), everything else bit for bit
            loose = set()
            for kk, vv in ((self.spec["card"].get("constrains") or {}).get("from_trans") or {}).items():
                loose.add(kk)
                xs = vv.get("x")
                loose.update([xs] if isinstance(xs, str) else list(xs or []))
            def same(k):
                a, b = S0["params"][k], S1["params"].get(k)
                if b is None:
                    return False
                return a == b or (k in loose and abs(a - b) <= 1e-12 * max(1.0, abs(a)))
            diff = [k for k in S0["params"] if not same(k)]
            if diff:
              bad.append(("params", "parameters differ after %s: %s" % (opk, [(k, S0["params"][k], S1["params"].get(k)) for k in diff[:4]])))
        if S0["chains"] != S1["chains"]:
            bad.append(("chains", "active chains %s -> %s after %s" % (S0["chains"], S1["chains"], opk)))
        if S0["config"] != S1["config"]:
            diff = [k for k in S0["config"] if S0["config"][k] != S1["config"][k]]
            bad.append(("config", "global configuration %s differs after %s" % (diff, opk)))

        def rel(a, b):
            return float(np.max(np.abs(a - b) / (np.abs(b) + 1e-300))) if a.shape == b.shape and a.size else float("inf")

        for n in S0["dens"]:
            if not (S0["dens"][n].shape == S1["dens"][n].shape and np.allclose(S0["dens"][n], S1["dens"][n], rtol=1e-10, atol=1e-300, equal_nan=True)):
                bad.append(("density", "density of data %s changed after %s (max rel %.3g)" % (n, opk, rel(S1["dens"][n], S0["dens"][n]))))
                break
        if "call" in S1 and not any(c == "density" for c, _ in bad):
            for n in S0["dens"]:
                if not (S0["dens"][n].shape == S1["call"][n].shape and np.allclose(S0["dens"][n], S1["call"][n], rtol=1e-8, atol=1e-300, equal_nan=True)):
                    bad.append(("density_call", "model(data %s) after %s differs from the density before it (max rel %.3g)" % (n, opk, rel(S1["call"][n], S0["dens"][n]))))
                    break
        return bad

    # ---- argument resolution -----------------------------------------------------------
    def _params(self, plist, names=None):
        out = {}
        cur = None
        if names:
            with self.tr.pause():
                cur = {k: float(v) for k, v in self.amp.get_params().items()}
            return {n: cur[n] * (1.0 + 0.1 * float(plist[0][1])) for n in names if n in cur}
        for idx, val in plist:
            # mostly free parameters; every third entry may name ANY parameter, fixed ones included (a scan of a
            # fixed mass, the full parameter dictionary of another fit result)
            pool = self.names if (idx // 7) % 3 == 0 else (self.free or self.names)
            n = pool[idx % len(pool)]
            if n.endswith("_mass") or n.endswith("_width"):
                if cur is None:
                    with self.tr.pause():
                        cur = {k: float(v) for k, v in self.amp.get_params().items()}
                out[n] = cur[n] * (1.0 + 0.03 * float(val))
            else:
                out[n] = float(val)
        return out

    def _res(self, rl):
        names = [self.resnames[i % len(self.resnames)] for i in rl]
        form = sum(rl) % 3
        if form == 1:  # particle objects instead of names
            return [p for p in self.dg.resonances if str(p) in names]
        if form == 2:  # chain indices (an int selects that chain)
            idx = sorted(set(i % self.nchains for i in rl))
            if sum(rl) % 2:  # indices that come out of numpy (np.arange / np.where) mixed with a name
                return [names[0]] + [self.np.int64(i) for i in idx]
            return idx
        return names

    def _chains(self, cl):
        return sorted(set(i % self.nchains for i in cl))

    # ---- raw operations ----------------------------------------------------------------
    def do_compute(self, op):
        from tf_pwa.applications import fit_fractions
        from tf_pwa.fitfractions import FitFractions, cal_fitfractions, cal_fitfractions_no_grad

        k = op["k"]
        D = self.data[op.get("d", "A")]
        amp = self.amp
        res = None
        if op.get("res_sub"):
            res = self.resnames[: max(1, len(self.resnames) - 1)]
            if op.get("batch") == 5 and k in ("cal_fitfractions", "cal_fitfractions_no_grad"):
                res = list(range(max(1, self.nchains - 1)))  # chain indices are accepted as well
        if k == "eval":
            return amp(D)
        if k == "partial_weight":
            return amp.partial_weight(D)
        if k == "partial_weight_combine":
            comb = [self._chains(c) for c in op.get("combine", [[0]])]
            return amp.partial_weight(D, combine=comb)
        if k == "partial_weight_interference":
            return amp.partial_weight_interference(D)
        if k == "cal_fitfractions":  # batch=None takes a list of batches (documented call style)
            return cal_fitfractions(amp, D if op.get("batch") else [D], res=res, batch=op.get("batch"))
        if k == "cal_fitfractions_no_grad":
            return cal_fitfractions_no_grad(amp, D if op.get("batch") else [D], res=res, batch=op.get("batch"))
        if k == "fit_fractions_old":
            return fit_fractions(amp, D, params=self._params(op.get("p", [])), batch=op.get("batch") or 3, res=res, method="old")
        if k == "fit_fractions_new":
            r = fit_fractions(amp, D, params=self._params(op.get("p", [])), batch=op.get("batch") or 3, res=res or list(self.resnames), method="new")
            return r.get_frac_grad()
        if k == "ff_integral":
            ff = FitFractions(amp, res or list(self.resnames))
            ff.integral(D, batch=op.get("batch"))
            return ff.get_frac_grad()
        if k == "ff_reuse":
            # ONE long-lived FitFractions object per session, re-evaluated whenever this operation comes up -
            # possibly under another chain selection / inside another block than the one it was created in
            if getattr(self, "ff_obj", None) is None:
                self.ff_obj = FitFractions(amp, list(self.resnames))
            else:
                self.log.count("probe.fitfractions_object_reused")
            self.ff_obj.integral(D, batch=op.get("batch"))
            return len(self.ff_obj.res)
        if k == "factor_iteration":
            out = []
            gen = amp.factor_iteration(deep=op.get("deep", 2))
            try:  # a careful consumer closes the generator when its own loop body raises
                for it in gen:
                    out.append(amp.pdf(D))
            finally:
                gen.close()
            return out
        if k in ("build_amp_matrix", "build_angle_amp_matrix", "build_int_matrix"):
            # the matrix builders behind the cached strategies: they walk over chains and (l,s) couplings
            from tf_pwa.experimental import build_amp, opt_int

            f = {"build_amp_matrix": build_amp.build_amp_matrix, "build_angle_amp_matrix": build_amp.build_angle_amp_matrix, "build_int_matrix": opt_int.build_int_matrix}[k]
            r = f(self.dg, D)
            return len(r)
        if k == "config_cal_fitfractions":
            prm = self._params(op.get("p", []))
            if len(prm) == 2:  # a fit-result like object carrying .params is accepted too

                class _R:
                    params = prm

                prm = _R()
            return self.config.cal_fitfractions(params=prm, mcdata=D, batch=op.get("batch") or 3, res=res)
        raise ValueError(k)

    def block_cm(self, op):
        import tf_pwa.config as tconf
        from tf_pwa.amp.core import variable_scope

        k = op["k"]
        p = op.get("p") or [[0, 0.5]]
        if k == "amp.temp_params":
            return self.amp.temp_params(self._params(p, op.get("names")))
        if k == "amp.temp_params_list":
            # the temporary point given as the list of all free values (set_params accepts either form)
            vals = [float(v) for v in self.vm.get_all_val()]
            for idx, val in p:
                if vals:
                    vals[idx % len(vals)] = float(val)
            return self.amp.temp_params(vals)
        if k == "vm.temp_params":
            return self.vm.temp_params(self._params(p, op.get("names")))
        if k == "amp.mask_params":
            return self.amp.mask_params(self._params(p))
        if k == "vm.mask_params":
            return self.vm.mask_params(self._params(p))
        if k == "config.mask_params":
            return self.config.mask_params(self._params(p))
        if k == "amp.temp_used_res":
            return self.amp.temp_used_res(self._res(op.get("res", [0])))
        if k == "dg.temp_used_res":
            return self.dg.temp_used_res(self._res(op.get("res", [0])))
        if k == "temp_total_gls_one":
            return self.amp.temp_total_gls_one()
        if k == "temp_config":
            name = op.get("name", "polar")
            val = {"polar": False, "multi_gpus": True, "dtype": "float32"}[name]
            return tconf.temp_config(name, val)
        if k == "variable_scope":
            return variable_scope()
        raise ValueError(k)

    def do_perm(self, op):
        k = op["k"]
        if k == "set_params":
            self.amp.set_params(self._params(op.get("p") or [[0, 0.1]]))
        elif k == "set_used_res":
            self.amp.set_used_res(self._res(op.get("res", [0])))
        elif k == "set_used_chains":
            self.amp.set_used_chains(self._chains(op.get("chains", [0])))
        elif k == "reset_chains":
            self.amp.set_used_chains(list(range(self.nchains)))

    # ---- one step = operation + oracle at its exit -------------------------------------------
    def step(self, op, path):
        k = op["k"]
        log = self.log
        if k in PERM:
            self.last_S = None
            self.do_perm(op)
            log.ev("perm", k=k, path=path)
            log.count("op." + k)
            self.changing_ops += 1
            return
        if k == "eval":
            r = self.do_compute(op)
            with self.tr.pause():
                log.ev("eval", path=path, d=op.get("d"), v=self.np.array(r))
                log.count("op.eval")
            return
        if self.light:
            S0 = None
        elif self.last_S is not None and len(path) == 1:
            S0 = self.last_S  # exit snapshot of the previous top-level step (its check passed)
        else:
            S0 = self.snapshot()
        self.last_S = None
        exc = None
        try:
            if k in BLOCKS:
                with self.block_cm(op):
                    for j, b in enumerate(op.get("body", [])):
                        try:
                            self.step(b, path + [j])
                        except UserRaise:
                            if not b.get("catch"):
                                raise
                    if op.get("raise"):
                        raise UserRaise("user body raised in %s" % k)
            else:
                r = self.do_compute(op)
                with self.tr.pause():
                    log.ev("compute", k=k, path=path, out=summarize(r, self.np))
        except BaseException as e:
            if isinstance(e, (SystemExit, KeyboardInterrupt, MemoryError)):
                raise
            exc = e
        with self.tr.pause():
            log.count("op." + k)
            self.changing_ops += 1
            if isinstance(exc, UserRaise) and op.get("raise"):
                log.count("fault.user_raise_in_block")
            fclass = "none" if exc is None else type(exc).__name__
            fired = self.tr.fired
            if self.light:
                if exc is not None:
                    raise exc
                return
            S1 = self.snapshot(call=True)
            bad = [] if self.dead else self.compare(S0, S1, k)
            if fired and fired.get("in_restore"):
                # the fault hit the restore code itself (inside a `finally:` body): a double fault, which
                # the property does not cover; the session ends here, nothing is judged
                log.count("probe.fault_inside_restore_code_not_judged")
                if bad:
                    self.dead = True
                bad = []
            if not bad and len(path) == 1 and "call" not in S1:
                self.last_S = S1
            if any(c in ("params", "chains") for c, _ in bad):
                bad = [b for b in bad if not b[0].startswith("density")]
            log.ev("exit", k=k, path=path, exc=fclass, ok=not bad)
            log.state(S1["params"], S1["chains"])
            if exc is not None:
                log.count("probe.left_by_exception")
            for clause, detail in bad:
                key = "%s|%s|%s" % (opkey(op), clause, "normal-exit" if exc is None else ("interrupt" if fclass == "InjectedInterrupt" else "exception"))
                log.fail(
                    "state-restored-after-" + ("exception" if exc is not None else "normal-exit"),
                    key,
                    detail + ("; fault " + json.dumps(fired) if fired else "") + ("; raised %r" % (exc,) if exc is not None and not fired else ""),
                    step=path,
                )
                self.dead = True
        if exc is not None:
            raise exc

    def run_top(self, i, op, fault=None, dry=False, record=False):
        from sim.seams import InjectedFault, InjectedInterrupt, LineTracer

        tr = None
        if dry or fault is not None:
            tr = LineTracer(
                fire_at=None if fault is None else int(fault["pos"]),
                exc_type=InjectedInterrupt if (fault or {}).get("kind") == "interrupt" else InjectedFault,
                record=record,
            )
        self.tr = tr if tr is not None else _NoTracer()
        try:
            if tr is not None:
                with tr:
                    self.step(op, [i])
            else:
                self.step(op, [i])
        except (UserRaise, InjectedFault, InjectedInterrupt) as e:
            self.log.ev("top-raise", i=i, t=type(e).__name__)
        except Exception as e:
            # the library raised by itself: an observation (its state clauses were checked in step)
            self.log.ev("top-raise", i=i, t=type(e).__name__, msg=str(e)[:200])
            self.log.count("probe.library_raised")
        finally:
            import sys

            sys.settrace(None)
            self.tr = _NoTracer()
        if tr is not None:
            self.op_events.append(tr.n)
            if tr.fired:
                self.log.count("fault." + ("interrupt" if fault.get("kind") == "interrupt" else "exception") + "_at_line")
                self.log.ev("fault", **tr.fired)
            elif fault is not None:
                self.log.count("fault_not_reached")
        else:
            self.op_events.append(0)
        return tr


def opkey(op):
    k = op["k"]
    inner = sorted(set(b["k"] for b in op.get("body", []) if b["k"] != "eval"))
    return k + (">" + "+".join(inner) if inner else "")


def summarize(r, np):
    try:
        if isinstance(r, dict):
            return {str(k): summarize(v, np) for k, v in r.items()}
        if isinstance(r, (list, tuple)):
            return [summarize(v, np) for v in r]
        if hasattr(r, "get_frac_grad"):
            return "FitFractions"
        return np.array(r)
    except Exception:
        return str(type(r))


def execute(spec, dry=False):
    from sim.env import Log

    log = Log(seed=spec.get("data_seed"), prop="C17")
    if spec.get("kind") == "enum" and not dry:
        return execute_enum(spec, log)
    ses = Session(spec, log)
    ses.light = dry and not ses.traced
    faults = {f["op"]: f for f in spec.get("faults", [])}
    for i, op in enumerate(spec["ops"]):
        ses.run_top(i, op, fault=None if dry else faults.get(i), dry=dry)
        if ses.dead:
            break
    fired = log.counters.get("fault.exception_at_line", 0) + log.counters.get("fault.interrupt_at_line", 0) + log.counters.get("fault.user_raise_in_block", 0)
    out = log.result(spec=spec, op_events=ses.op_events)
    out["nontrivial"] = ses.changing_ops >= 2 and (not spec.get("faults") or fired > 0)
    out["opkinds"] = {k[3:]: v for k, v in log.counters.items() if k.startswith("op.")}
    return out


def execute_enum(spec, log):
    from sim.env import Log

    """Enumerate injection sites of one operation tree (unit) on one card/strategy."""
    base = dict(spec)
    base["kind"] = "history"
    base["faults"] = []
    base.pop("max_inject", None)
    base.pop("inject_seed", None)
    base.pop("unit", None)
    ses = Session(base, log)
    tr = ses.run_top(0, base["ops"][0], dry=True, record=True)
    if ses.dead:
        # fault-free failure: report with the plain history spec
        out = log.result(spec=base, op_events=ses.op_events)
        out["nontrivial"] = True
        return out
    total = tr.n
    sites = sorted(tr.first.keys())
    helper = [s for s in sites if s[0] in HELPER_FILES or (s[0] == "amp/core.py" and False)]
    pos = []
    rs = Stream(spec.get("inject_seed", 0), "enum")
    # helper-layer sites: first, last and one middle occurrence
    helper_set = set()
    for s in sites:
        fn_helper = s[0] in HELPER_FILES
        if fn_helper:
            helper_set.add(s)
            pos.append((tr.first[s], s, "first"))
            if tr.last[s] != tr.first[s]:
                pos.append((tr.last[s], s, "last"))
    deep = [s for s in sites if s not in helper_set]
    for s in deep:
        pos.append((tr.first[s], s, "first"))
        if tr.last[s] != tr.first[s]:
            pos.append((tr.last[s], s, "last"))
    mx = spec.get("max_inject", 0)
    n_helper = sum(1 for p in pos if p[1] in helper_set)
    if mx and len(pos) > mx:
        hp = [p for p in pos if p[1] in helper_set]
        dp = [p for p in pos if p[1] not in helper_set]
        if len(hp) > mx:
            hp = rs.sample(hp, mx)
        dp = rs.sample(dp, max(0, mx - len(hp)))
        pos = hp + dp
    pos.sort()
    log.count("enum.sites_total", len(sites))
    log.count("enum.sites_helper_layer", len(helper_set))
    log.count("enum.dynamic_events", total)
    injected_sites = set()
    fail_specs = {}
    for p, s, which in pos:
        sp = copy.deepcopy(base)
        sp["faults"] = [{"op": 0, "pos": int(p), "kind": "interrupt" if rs.chance(0.15) else "exc"}]
        sub = Log()
        ses = Session(sp, sub)
        ses.run_top(0, sp["ops"][0], fault=sp["faults"][0])
        fired = sub.counters.get("fault.exception_at_line", 0) + sub.counters.get("fault.interrupt_at_line", 0)
        log.count("enum.injections")
        if fired:
            injected_sites.add(s)
            log.count("fault.exception_at_line" if sp["faults"][0]["kind"] == "exc" else "fault.interrupt_at_line")
        for k, v in sub.counters.items():
            if k.startswith("probe."):
                log.count(k, v)
        log.ev("inject", site=list(s), which=which, pos=p, fired=bool(fired), ok=not sub.failures)
        for f in sub.failures:
            if f["key"] not in fail_specs:
                fail_specs[f["key"]] = sp
                f = dict(f)
                f["spec"] = sp
                log.failures.append(f)
    log.count("enum.sites_injected", len(injected_sites))
    out = log.result(spec=spec)
    out["nontrivial"] = len(injected_sites) >= 2
    out["opkinds"] = {opkey(base["ops"][0]): 1}
    out["enum"] = {"unit": opkey(base["ops"][0]), "sites": len(sites), "helper_sites": len(helper_set), "injected_sites": len(injected_sites), "injections": len(pos), "complete": not (mx and len(pos) >= mx)}
    return out


def run(job):
    if job.get("mode") == "spec":
        spec = job["spec"]
    else:
        spec = generate(job)
    return execute(spec)


def shrink_candidates(spec):
    """property-specific simplifications: drop nested body ops, drop faults, drop args"""
    ops = spec.get("ops", [])

    def variants(op):
        body = op.get("body")
        if body:
            for j in range(len(body)):
                o = copy.deepcopy(op)
                del o["body"][j]
                yield o
            for j, b in enumerate(body):
                for v in variants(b):
                    o = copy.deepcopy(op)
                    o["body"][j] = v
                    yield o
            # replace a block by its body's first op
        if op.get("raise"):
            o = copy.deepcopy(op)
            del o["raise"]
            yield o

    for i, op in enumerate(ops):
        for v in variants(op):
            s = copy.deepcopy(spec)
            s["ops"][i] = v
            yield s
    for i in range(len(spec.get("faults", []))):
        s = copy.deepcopy(spec)
        del s["faults"][i]
        yield s
    # removing a top-level op shifts fault indices: handled here instead of the generic deleter
    for i in range(len(ops)):
        if len(ops) <= 1:
            break
        s = copy.deepcopy(spec)
        del s["ops"][i]
        nf = []
        for f in s.get("faults", []):
            if f["op"] == i:
                continue
            f = dict(f)
            if f["op"] > i:
                f["op"] -= 1
            nf.append(f)
        s["faults"] = nf
        yield s
    for n in ("nA", "nB"):
        if spec.get(n, 0) > 3:
            s = copy.deepcopy(spec)
            s[n] = 3
            yield s


def evidence_extra(ev, executed):
    en = [r.get("enum") for j, r in executed if r.get("enum")]
    if en:
        ev["coverage"]["site_enumeration"] = {
            "units": len(en),
            "sites_reached_in_dry_runs": sum(e["sites"] for e in en),
            "helper_layer_sites": sum(e["helper_sites"] for e in en),
            "sites_with_fired_injection": sum(e["injected_sites"] for e in en),
            "injections": sum(e["injections"] for e in en),
            "units_enumerated_completely": sum(1 for e in en if e["complete"]),
        }
        ev["coverage"]["exhaustive"] = False

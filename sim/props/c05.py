"""C05 — every evaluation strategy returns the same density and likelihood.

Lock-step differential: reference = the same card built as a default eager model; system = the card
with a seeded set of `data:` strategy options.  Both receive the same logical operation history
(parameter moves, evaluations on first/second sight of a data object, equal-content new objects,
selection changes and back, coordinate switches, mask blocks, FCN builds, toy-study loops with
dropped FCNs) and must agree after every step.  Faults: address reuse of a dead keyed object (ids
seam) between consecutive FCNs, stale-trace schedules, hash seed.
Contraction routine: the expressions/shapes the amplitude builder really emits are recorded while
the cards are evaluated and replayed - together with generated expressions that need non-trivial
transpositions - on seeded tensors against numpy.einsum under the worker's hash seed.
"""
import copy
import json

from sim import cards
from sim.prng import Stream

STRATEGIES = {
    "default": {},
    "tf_function": {"use_tf_function": True},
    "tf_function_noid": {"use_tf_function": True, "no_id_cached": True},
    "cached_amp": {"amp_model": "cached_amp", "preprocessor": "cached_amp"},
    "cached_shape": {"amp_model": "cached_shape", "preprocessor": "cached_shape"},
    "base_factor": {"amp_model": "base_factor"},
    "base_factor_cached_angle": {"amp_model": "base_factor", "preprocessor": "cached_angle"},
    "p4_directly": {"amp_model": "p4_directly", "preprocessor": "p4_directly"},
    "lazy_call": {"lazy_call": True},
    "nll_cached_int": {"cached_int": True},
    "nll_cached_amp": {"cached_amp": True},
    "jit": {"use_tf_function": True, "jit_compile": True},
}
TRACED = ("tf_function", "tf_function_noid", "jit")
OPS = ["set_params", "move_shapes", "eval", "eval", "eval_new_object", "eval_reordered", "second_model", "select_and_back", "select", "reset", "coords", "mask", "nll", "nll", "toy_loop", "nll_fault", "iterate_alone"]

RULE = (
    "sessions are generated from the seed: card x strategy option set x 3..8 operations applied in lock-step to a default eager reference model "
    "and to the strategy model; einsum sessions replay recorded and generated contraction expressions on seeded tensors against numpy.einsum. "
    "Non-trivial = (strategy sessions) a non-default strategy with >= 2 comparisons after a state change, or (einsum sessions) >= 2 distinct expressions; "
    "distinct = distinct event-log digests."
)


def plan(tier, seed):
    jobs = []
    i = 0
    if tier == "quick":
        n_untraced, n_traced, n_einsum, n_jit = 96, 12, 24, 0
    else:
        n_untraced, n_traced, n_einsum, n_jit = 4000, 400, 800, 24
    for k in range(n_traced):
        jobs.append({"mode": "seed", "kind": "strategy", "klass": "traced", "seed": seed * 1000003 + i, "timeout": 300})
        i += 1
    for k in range(n_jit):
        jobs.append({"mode": "seed", "kind": "strategy", "klass": "jit", "seed": seed * 1000003 + i, "timeout": 600})
        i += 1
    for k in range(n_untraced):
        jobs.append({"mode": "seed", "kind": "strategy", "klass": "untraced", "seed": seed * 1000003 + i})
        i += 1
    for k in range(n_einsum):
        jobs.append({"mode": "seed", "kind": "einsum", "seed": seed * 1000003 + i})
        i += 1
    return {
        "jobs": jobs,
        "timeout": 200,
        "budget_s": 110 if tier == "quick" else 3000,
        "level": "exploration",
        "rule": RULE,
        "min_executed": 40,
        "shrink_s": 90,
        "real_vs_stub": {
            "real": "ConfigLoader with data-section strategy options, amplitude models (default, cached_amp, cached_shape, base_factor, p4_directly), tf.function / XLA execution, LazyCall data, likelihood models (default, cached_int, cached_amp), tf_pwa.einsum",
            "simulated": "operation history, object lifetimes, address reuse of dead keyed objects (ids seam), events from the rng seam, hash seed",
            "stub": "none",
        },
        "assumptions": [
            "strategies that cache line shapes or integrals are only given parameter moves they document as free (couplings; masses and widths stay fixed)",
            "XLA (jit_compile) sessions run in the thorough tier only (compile time)",
            "numpy.einsum is the reference contraction",
        ],
    }


# ---------------------------------------------------------------------------------- generation


def generate(job):
    rs = Stream(job["seed"], "C05")
    if job.get("kind") == "einsum":
        return {"kind": "einsum", "card": cards.make_card(rs.child("model")), "data_seed": rs.randrange(1 << 30), "tseed": rs.randrange(1 << 30), "extra": rs.randint(4, 10), "n": 5}
    rm, ro = rs.child("model"), rs.child("ops")
    klass = job.get("klass", "untraced")
    if klass == "traced":
        strategy = rm.choice(["tf_function", "tf_function_noid"])
        card = cards.make_card(rm, "S3", n_res=2)
    elif klass == "jit":
        strategy = "jit"
        card = cards.make_card(rm, "S3", n_res=2)
    else:
        strategy = rm.choice([s for s in STRATEGIES if s not in TRACED and s != "default"] + ["default"])
        if rm.chance(0.45) and strategy != "nll_cached_int":  # cached integrals require fixed line shapes (property text)
            # some resonances float their mass/width (their line shape cannot be cached; values are never moved here)
            card = cards.make_card(rm, "S3", floating=True, n_res=3)
        else:
            card = cards.make_card(rm)
    nops = ro.randint(3, 8 if klass == "untraced" else 6)
    ops = []
    pool = list(OPS)
    if strategy.startswith("nll_"):
        pool += ["nll", "nll", "toy_loop", "toy_loop"]
    for _ in range(nops):
        k = ro.choice(pool)
        op = {"k": k, "i": ro.randrange(1000), "seed": ro.randrange(1 << 30), "d": ro.choice(["A", "A", "B"])}
        if k == "coords":
            op["to"] = ro.choice(["xy", "rp"])
        if k in ("nll", "toy_loop", "nll_fault", "iterate_alone"):
            op["batch"] = ro.choice([65000, 3, 4])
        if k == "nll_fault":
            op["pos"] = ro.choice([50, 400, 2000, 6000, 15000, 40000])
        if k == "toy_loop":
            op["reuse"] = ro.chance(0.6)
        ops.append(op)
    if klass in ("traced", "jit") and rm.chance(0.4):
        # directed: two compiled models in one process
        ops = ops[:2] + [{"k": "second_model", "i": 0, "seed": ro.randrange(1 << 30), "d": "A"}] + ops[2:4]
    bg, sbatch = rm.chance(0.4), rm.choice([65000, 3, 4])
    if strategy == "lazy_call" and rm.chance(0.6):
        # directed: lazily batched samples (data + background) whose pieces are also batched on their own, in
        # either order, with a batch size that divides the data sample
        bg, sbatch = True, 3
        first = [{"k": "iterate_alone", "i": 0, "seed": 1, "d": "A", "batch": 3}, {"k": "nll", "i": 0, "seed": 2, "d": "A", "batch": 3}]
        ops = (first if rm.chance(0.5) else first[::-1]) + ops[:4]
    data_opts = rm.choice([{}, {}, {"r_boost": False}, {"random_z": False}, {"r_boost": False, "random_z": False}, {"center_mass": True}])
    return {"kind": "strategy", "data_opts": data_opts, "card": card, "strategy": strategy, "bg": bg, "batch": sbatch, "nA": rm.choice([6, 9]), "nB": rm.choice([7, 12]), "data_seed": rm.randrange(1 << 30), "param_seed": rm.randrange(1 << 30), "ops": ops}


# ---------------------------------------------------------------------------------- strategy sessions


class Failure(Exception):
    pass


def reorder(x, rs):
    if type(x) is dict:
        keys = list(x)
        keys = rs.sample(keys, len(keys))
        if len(keys) > 1 and keys == list(x):
            keys = keys[1:] + keys[:1]
        return {k: reorder(x[k], rs) for k in keys}
    if type(x) in (list, tuple):
        return type(x)(reorder(i, rs) for i in x)
    return x


class Session:
    def __init__(self, spec, log):
        import numpy as np

        from sim.seams import rng_seam

        self.np, self.spec, self.log = np, spec, log
        extra = {"bg_weight": 0.3} if spec.get("bg") else {}  # a background sample needs its weight (default 0)
        extra.update(spec.get("data_opts") or {})  # angle conventions of the data section: the same for both models
        self.ref = cards.build(spec["card"], dict(extra))
        self.sut = cards.build(spec["card"], dict(STRATEGIES[spec["strategy"]], **extra))
        self.ramp = self.ref.get_amplitude()
        self.samp = self.sut.get_amplitude()
        vals = cards.randomize_params(self.ramp, Stream(spec["param_seed"], "p"), 0.7)
        self.samp.set_params({k: float(v) for k, v in self.ramp.get_params().items()})
        with rng_seam(spec["data_seed"]):
            self.p = {"A": self.ref.generate_phsp_p(spec["nA"]), "B": self.ref.generate_phsp_p(spec["nB"])}
            if spec.get("bg"):
                self.p["G"] = self.ref.generate_phsp_p(max(2, spec["nA"] // 2))
        self.Dr = {k: self.make(self.ref, v) for k, v in self.p.items()}
        self.Ds = {k: self.make(self.sut, v) for k, v in self.p.items()}
        self.nchains = len(list(self.ramp.decay_group.chains))
        self.resnames = [str(r) for r in self.ramp.decay_group.resonances]
        self.compared = 0
        self.changed = 0
        self.fcns = None
        self.toyn = 0
        self.coord_switched = False

    def make(self, cfg, p):
        d = cfg.data.cal_angle({k: v for k, v in p.items()})
        return d

    def same(self, got, want, what, opk, rtol):
        np = self.np
        got, want = np.array(got), np.array(want)
        self.compared += 1
        scale = float(np.max(np.abs(want))) if want.size else 1.0
        if got.shape != want.shape or not np.allclose(got, want, rtol=rtol, atol=1e-11 * max(scale, 1e-300), equal_nan=True):
            err = float(np.max(np.abs(got - want))) / max(scale, 1e-300) if got.shape == want.shape else float("inf")
            from sim.seams import ID_SEAM

            sfx = "|after-address-reuse" if ID_SEAM.reused else ""
            if self.coord_switched:
                sfx += "|after-coordinate-switch"
            if "lazy_call" in STRATEGIES[self.spec["strategy"]] and (self.spec.get("data_opts") or {}).get("r_boost") is False:
                sfx += "|r_boost=False"  # recorded finding: lazily batched samples under r_boost: False
            self.log.fail(what, "%s|%s|%s%s" % (self.spec["strategy"], opk, what, sfx), "strategy %s, %s: %s differs from plain eager evaluation (max deviation / scale = %.3g)%s" % (self.spec["strategy"], opk, what, err, "; the address of a dead keyed object had been handed to a new one" if sfx else ""), step=self.step)
            raise Failure()

    step = -1

    def compare_density(self, d, opk):
        self.same(self.samp(self.Ds[d]), self.ramp.pdf(self.Dr[d]), "density", opk, 1e-9)

    def free_couplings(self):
        return [n for n in self.ramp.vm.trainable_vars if not (n.endswith("_mass") or n.endswith("_width"))]

    def run(self, op):
        np = self.np
        k = op["k"]
        self.log.count("op." + k)
        if k == "set_params":
            rs = Stream(op["seed"], "sp")
            names = self.free_couplings()
            vals = {n: round(rs.uniform(-1.5, 1.5), 5) for n in rs.sample(names, max(1, len(names) // 2))}
            self.ramp.set_params(vals)
            self.samp.set_params(vals)
            self.changed += 1
        elif k == "move_shapes":
            # floating masses / widths move (what a fit does); legal for every strategy but cached integrals
            names = [n for n in self.ramp.vm.trainable_vars if n.endswith("_mass") or n.endswith("_width")]
            if names and self.spec["strategy"] != "nll_cached_int":
                rs = Stream(op["seed"], "shape")
                cur = self.ramp.get_params()
                vals = {n: float(cur[n]) * (1.0 + 0.04 * rs.uniform(-1, 1)) for n in names}
                self.ramp.set_params(vals)
                self.samp.set_params(vals)
                self.changed += 1
                self.log.count("probe.floating_line_shape_moved")
                self.compare_density(op["d"], "eval(after moving floating masses/widths)")
        elif k == "eval":
            self.compare_density(op["d"], "eval")
        elif k == "eval_new_object":
            self.Ds[op["d"]] = self.make(self.sut, self.p[op["d"]])
            self.compare_density(op["d"], "eval(new equal object)")
        elif k == "second_model":
            # a second, independent model with the same strategy options lives in the same process (a second
            # ConfigLoader: another decay card, its own parameters and events); both are evaluated alternately
            from sim.seams import rng_seam

            if getattr(self, "other", None) is None:
                rs2 = Stream(op["seed"], "card2")
                # the SAME card (same particle names and quantum numbers), other couplings and other events.
                # (A card that re-uses the particle names with other spins would run into the name-keyed
                # lru_cache of Decay._get_cg_matrix - a defect of the pinned tree outside this property, see
                # DESIGN.md 10.4 - and even plain eager evaluation of the second model would be wrong.)
                card2 = copy.deepcopy(self.spec["card"])
                extra = {"bg_weight": 0.3} if self.spec.get("bg") else {}
                extra.update(self.spec.get("data_opts") or {})
                ref2 = cards.build(card2, dict(extra))
                sut2 = cards.build(card2, dict(STRATEGIES[self.spec["strategy"]], **extra))
                cards.randomize_params(ref2.get_amplitude(), rs2.child("p"), 0.7)
                sut2.get_amplitude().set_params({kk: float(v) for kk, v in ref2.get_amplitude().get_params().items()})
                with rng_seam(op["seed"]):
                    p2 = ref2.generate_phsp_p(self.spec["nA"])
                self.other = (ref2.get_amplitude(), sut2.get_amplitude(), self.make(ref2, p2), self.make(sut2, p2), ref2, sut2)
                self.log.count("probe.second_model_in_process")
            r2, s2, dr2, ds2 = self.other[:4]
            for rep in range(2):  # make sure the first model has been through its compiled path as well
                self.compare_density(op["d"], "eval")
            for rep in range(2):  # the second look at the same data object takes the compiled path
                self.same(s2(ds2), r2.pdf(dr2), "density", "eval(second model of the process)", 1e-9)
            self.compare_density(op["d"], "eval(first model after the second one was used)")
        elif k == "eval_reordered":
            # the same sample in a dictionary whose (nested) keys were inserted in another order - what
            # data_merge (iterates a set: follows the hash seed), a cache file of another run or a hand-built
            # dict produce; key order is not part of the data
            if isinstance(self.Ds[op["d"]], dict):
                self.Ds[op["d"]] = reorder(self.Ds[op["d"]], Stream(op["seed"], "order"))
                self.log.count("probe.sample_with_permuted_key_order")
            self.compare_density(op["d"], "eval(keys of the sample inserted in another order)")
        elif k in ("select", "select_and_back"):
            names = [self.resnames[(op["i"] + j) % len(self.resnames)] for j in range(1 + op["i"] % 2)]
            self.ramp.set_used_res(names)
            self.samp.set_used_res(names)
            self.changed += 1
            self.compare_density(op["d"], "eval(after selecting %d resonances)" % len(names))
            if k == "select_and_back":
                self.ramp.set_used_chains(list(range(self.nchains)))
                self.samp.set_used_chains(list(range(self.nchains)))
                self.compare_density(op["d"], "eval(selection restored)")
        elif k == "reset":
            self.ramp.set_used_chains(list(range(self.nchains)))
            self.samp.set_used_chains(list(range(self.nchains)))
            self.compare_density(op["d"], "eval(all chains)")
        elif k == "coords":
            for a in (self.ramp, self.samp):
                if op["to"] == "xy":
                    a.vm.rp2xy_all()
                else:
                    a.vm.xy2rp_all()
            self.changed += 1
            if self.compared or self.fcns is not None:
                # a trace / cached build may exist that read the polar flags: recorded finding (stale compiled
                # state after a coordinate switch)
                self.coord_switched = True
            self.compare_density(op["d"], "eval(after %s)" % ("rp2xy_all" if op["to"] == "xy" else "xy2rp_all"))
        elif k == "mask":
            names = self.free_couplings()
            n = names[op["i"] % len(names)]
            with self.ramp.mask_params({n: 0.3}):
                with self.samp.mask_params({n: 0.3}):
                    self.compare_density(op["d"], "eval(inside mask_params)")
            self.compare_density(op["d"], "eval(after mask_params)")
        elif k == "nll":
            self.do_nll(op, fresh=self.fcns is None)
        elif k == "toy_loop":
            self.do_toy_loop(op)
        elif k == "nll_fault":
            self.do_nll_fault(op)
        elif k == "iterate_alone":
            # a sample is batched on its own (e.g. a batch-wise density evaluation) before / between FCN uses
            from tf_pwa.data import batch_call

            b = self.spec.get("batch") or op.get("batch", 3)
            got = batch_call(self.samp, self.Ds["A"], batch=b)
            self.same(got, self.ramp.pdf(self.Dr["A"]), "density", "batch_call(model, data, batch=%d)" % b, 1e-9)
        else:
            raise ValueError(k)
        self.log.state(self.spec["strategy"], k)

    def build_fcns(self, op):
        batch = self.spec.get("batch") or op.get("batch", 65000)  # one batch size per session (iterate_alone uses it too)
        bgr = [self.Dr["G"]] if "G" in self.Dr else None
        bgs = [self.Ds["G"]] if "G" in self.Ds else None
        fr = self.ref.get_fcn([[self.Dr["A"]], [self.Dr["B"]], bgr, None], batch=batch)
        fs = self.sut.get_fcn([[self.Ds["A"]], [self.Ds["B"]], bgs, None], batch=batch)
        return fr, fs

    def do_nll(self, op, fresh=False):
        np = self.np
        if self.ramp.decay_group.not_full:
            self.ramp.set_used_chains(list(range(self.nchains)))
            self.samp.set_used_chains(list(range(self.nchains)))
        if self.fcns is None:
            self.fcns = self.build_fcns(op)
        fr, fs = self.fcns
        nr, gr = fr.nll_grad({})
        ns, gs = fs.nll_grad({})
        self.same(float(ns), float(nr), "nll", "nll_grad", 1e-8)
        self.same(np.array(gs), np.array(gr), "nll-gradient", "nll_grad", 1e-7)
        if "lazy_call" not in STRATEGIES[self.spec["strategy"]]:  # the library itself skips fcn() for lazy data (print_init_nll)
            self.same(float(fs({})), float(fr({})), "nll", "fcn()", 1e-8)

    def do_nll_fault(self, op):
        """an evaluation of the likelihood is interrupted by an exception (Ctrl-C / failing kernel analogue) at a
        seeded Python line inside tf_pwa; the SAME FCN is then used again and must still agree with the reference"""
        from sim.seams import InjectedFault, InjectedInterrupt, LineTracer

        if self.ramp.decay_group.not_full:
            self.ramp.set_used_chains(list(range(self.nchains)))
            self.samp.set_used_chains(list(range(self.nchains)))
        if self.fcns is None:
            self.fcns = self.build_fcns(op)
        fr, fs = self.fcns
        tr = LineTracer(fire_at=op.get("pos", 2000), exc_type=InjectedInterrupt if op.get("pos", 0) % 3 == 0 else InjectedFault)
        try:
            with tr:
                fs.nll_grad({})
        except (InjectedFault, InjectedInterrupt):
            self.log.count("fault.likelihood_evaluation_interrupted")
        except Exception as e:
            import traceback

            tb = traceback.extract_tb(e.__traceback__)
            if "/verif/" in tb[-1].filename:
                raise
            self.log.ev("nll-fault-raised", err=type(e).__name__)
        import sys

        sys.settrace(None)
        self.changed += 1
        # selection must be intact for the comparison (a fault may interrupt nothing that touches it; C17 owns that)
        self.samp.set_used_chains(list(range(self.nchains)))
        self.do_nll(op)

    def do_toy_loop(self, op):
        """drop the FCNs, draw different toys, build new FCNs - the cached likelihood models key their
        caches by id() of per-FCN objects; with `reuse` the simulator hands the address of a dead keyed
        object to the next new one (which is all CPython's allocator needs to be allowed to do)"""
        import gc

        from sim.seams import ID_SEAM, rng_seam

        self.fcns = None
        gc.collect()
        self.toyn += 1
        with rng_seam(self.spec["data_seed"] + 17 * self.toyn):
            self.p = {"A": self.ref.generate_phsp_p(self.spec["nA"]), "B": self.ref.generate_phsp_p(self.spec["nB"])}
        self.Dr = {k: self.make(self.ref, v) for k, v in self.p.items()}
        self.Ds = {k: self.make(self.sut, v) for k, v in self.p.items()}
        gc.collect()
        if op.get("reuse"):
            dead = ID_SEAM.dead_serials()
            if dead:
                ID_SEAM.schedule_reuse(len(dead))
                self.log.count("fault.address_reuse_scheduled", len(dead))
        before = ID_SEAM.reused
        self.changed += 1
        self.do_nll(op, fresh=True)
        if ID_SEAM.reused > before:
            self.log.count("fault.address_reuse_performed", ID_SEAM.reused - before)
        ID_SEAM.reuse_pending = 0


def execute_strategy(spec):
    from sim.env import Log

    log = Log(seed=spec.get("data_seed"), prop="C05")
    try:
        ses = Session(spec, log)
    except Exception as e:
        import traceback

        tb = traceback.extract_tb(e.__traceback__)
        if "/verif/" in tb[-1].filename:
            raise
        log.fail("raised", "%s|setup|raised|%s" % (spec["strategy"], type(e).__name__), "building the %s model raised %s: %s" % (spec["strategy"], type(e).__name__, str(e)[:300]))
        return log.result(spec=spec, nontrivial=False, opkinds={})
    try:
        for i, op in enumerate(spec["ops"]):
            ses.step = i
            try:
                ses.run(op)
            except Failure:
                raise
            except Exception as e:
                import traceback

                tb = traceback.extract_tb(e.__traceback__)
                if "/verif/" in tb[-1].filename:
                    raise
                from sim.seams import ID_SEAM

                log.fail("raised", "%s|%s|raised|%s%s" % (spec["strategy"], op["k"], type(e).__name__, "|after-address-reuse" if ID_SEAM.reused else ""), "strategy %s: %s raised %s: %s (%s:%d)" % (spec["strategy"], op["k"], type(e).__name__, str(e)[:2500], tb[-1].filename.split("/")[-1], tb[-1].lineno), step=i)
                raise Failure()
    except Failure:
        pass
    res = log.result(spec=spec, nontrivial=spec["strategy"] != "default" and ses.compared >= 2 and ses.changed >= 1)
    res["opkinds"] = {k[3:]: v for k, v in log.counters.items() if k.startswith("op.")}
    res["opkinds"]["strategy." + spec["strategy"]] = 1
    return res


# ---------------------------------------------------------------------------------- einsum sessions


def gen_expressions(rs, n):
    """contraction expressions of the shape the builder emits (chains of decays sharing helicity indices, batch
    ellipsis), with operand index orders that need non-trivial transpositions"""
    out = []
    letters = "abcdefghijklmnop"
    for _ in range(n):
        # a chain of operands; neighbouring operands share summed indices (resonance helicities), every other
        # index is free and appears once: each index occurs in at most two operands, as in the builder's output
        nops = rs.randint(2, 4)
        it = iter(letters)
        ops = [[] for _ in range(nops)]
        summed = []
        for a in range(nops - 1):
            for _k in range(rs.randint(1, 2)):
                c = next(it)
                b = rs.randint(a + 1, nops - 1)
                ops[a].append(c)
                ops[b].append(c)
                summed.append(c)
        free = []
        for a in range(nops):
            for _k in range(rs.randint(0, 2)):
                c = next(it)
                ops[a].append(c)
                free.append(c)
        if not free:
            c = next(it)
            ops[0].append(c)
            free.append(c)
        ops = ["".join(rs.shuffle(o)) for o in ops]
        final = rs.shuffle(free) if rs.chance(0.6) else free
        used = sorted(set("".join(ops)))
        sizes = {c: rs.choice([1, 2, 2, 3]) for c in used}
        out.append({"expr": ",".join("..." + o for o in ops) + "->..." + "".join(final), "sizes": sizes})
    return out


def execute_einsum(spec):
    import numpy as np
    import tensorflow as tf

    import tf_pwa.amp.core as core
    from sim.env import Log
    from tf_pwa.einsum import einsum as pwa_einsum

    log = Log(seed=spec.get("tseed"), prop="C05")
    recorded = []
    orig = core.einsum

    def rec(expr, *args, **kw):
        recorded.append((expr, [tuple(a.shape) for a in args], [a.dtype for a in args]))
        return orig(expr, *args, **kw)

    core.einsum = rec
    try:
        cfg = cards.build(spec["card"])
        D = cards.seeded_phsp(cfg, spec["n"], spec["data_seed"])
        cfg.get_amplitude().pdf(D)
    finally:
        core.einsum = orig
    g = np.random.Generator(np.random.PCG64(spec["tseed"]))
    nexpr = 0
    seen = set()

    def check(expr, shapes, origin):
        nonlocal nexpr
        key = (expr, tuple(shapes))
        if key in seen:
            return True
        seen.add(key)
        nexpr += 1
        ts = [g.normal(size=s) + 1j * g.normal(size=s) for s in shapes]
        want = np.einsum(expr, *ts)
        try:
            got = pwa_einsum(expr, *[tf.constant(t) for t in ts])
        except Exception as e:
            log.count("probe.einsum_declined_by_raising")
            log.ev("declined", expr=expr, err=type(e).__name__)
            return True
        got = np.array(got)
        log.ev("einsum", expr=expr, shapes=[list(s) for s in shapes], ok=bool(got.shape == want.shape and np.allclose(got, want, rtol=1e-10, atol=1e-12)))
        if got.shape != want.shape or not np.allclose(got, want, rtol=1e-10, atol=1e-12):
            log.fail("einsum-equals-reference", "einsum|%s" % origin, "tf_pwa.einsum.einsum(%r) on shapes %s differs from numpy.einsum (hash seed dependent index ordering)" % (expr, [list(s) for s in shapes]))
            return False
        return True

    ok = True
    for expr, shapes, dts in recorded:
        log.count("probe.recorded_builder_expression")
        if not check(expr, shapes, "builder-expression"):
            ok = False
            break
    if ok:
        rs = Stream(spec["tseed"], "expr")
        for e in gen_expressions(rs, spec.get("extra", 6)):
            ops = e["expr"].split("->")[0].split(",")
            shapes = [(3,) + tuple(e["sizes"][c] for c in o.replace("...", "")) for o in ops]
            if not check(e["expr"], shapes, "generated-expression"):
                break
    res = log.result(spec=spec, nontrivial=nexpr >= 2)
    res["opkinds"] = {"einsum": nexpr}
    return res


def run(job):
    spec = job["spec"] if job.get("mode") == "spec" else generate(job)
    if spec.get("kind") == "einsum":
        return execute_einsum(spec)
    return execute_strategy(spec)


def shrink_candidates(spec):
    if spec.get("kind") == "einsum":
        if spec.get("extra", 0) > 0:
            s = copy.deepcopy(spec)
            s["extra"] = 0
            yield s
        return
    for n in ("nA", "nB"):
        if spec.get(n, 0) > 3:
            s = copy.deepcopy(spec)
            s[n] = 3
            yield s
    for i, op in enumerate(spec.get("ops", [])):
        if op.get("reuse"):
            s = copy.deepcopy(spec)
            s["ops"][i]["reuse"] = False
            yield s

"""C16 — parameter constraints survive every sequence of updates.

Simulated session: a bare VarsManager + Variable objects set up in configuration order
(create -> fix/free -> tie -> bound), then a generated history of parameter-manager operations.
Oracle: a small executable reference model at real-name level (value per tie group, fixed flag,
polar flag per complex name, bound per name, active mask), checked after every step, plus the
clause-specific invariants of the property (I1..I5 in DESIGN.md section 4).
Nondeterminism: the random stream consumed by refresh_vars (rng seam, plain and adversarial scripts),
the hash seed (set iteration order inside refresh_vars), block exits by exception.
"""
import copy
import json
import math

from sim.prng import Stream

RULE = (
    "sessions are generated from the seed: a variable set (real / complex polar / complex Cartesian / shaped; fixed or free), "
    "ties (sameas, set_same incl. merging groups, r_shareto), bounds (two-sided, lower, upper, custom expression), then 6..40 "
    "operations (set/get in both coordinate conventions, bulk loads, round trips, refresh under the rng seam, coordinate switches, "
    "standardisation, fit steps, bound cycles, mask/temp blocks incl. exits by exception). Non-trivial = at least one tie or bound "
    "or complex parameter AND >= 2 state-changing operations; distinct = distinct event-log digests."
)

COMPLEX_OPS = ["rp2xy", "xy2rp", "rp2xy_all", "xy2rp_all", "std_polar", "std_polar_all", "standard_complex", "trans_params"]
OPS = (
    ["set", "set", "get", "set_all_dict", "set_all_list", "roundtrip", "save_reload", "refresh", "refresh", "var_set"]
    + COMPLEX_OPS
    + ["set_trans_var", "set_all_fit", "minimize", "bound_cycle", "bad_rebound", "mask_block", "temp_block", "bound_math", "read_paths"]
)
FUNCS = [None, None, None, "a+(b-a)/(1+exp(-x))"]


def plan(tier, seed):
    n = 260 if tier == "quick" else 12000
    jobs = [{"mode": "seed", "seed": seed * 1000003 + i, "faulty": i % 3 == 0} for i in range(n)]
    return {
        "jobs": jobs,
        "timeout": 120,
        "budget_s": 75 if tier == "quick" else 2400,
        "level": "exploration",
        "rule": RULE,
        "min_executed": 60,
        "shrink_s": 60,
        "real_vs_stub": {
            "real": "tf_pwa.variable (VarsManager, Variable, Bound incl. SymPy), TensorFlow variables, scipy minimiser",
            "simulated": "random stream of refresh_vars (tf.random.uniform/normal, np.random.chisquare through the rng seam, incl. adversarial scripts), PYTHONHASHSEED, exceptions raised by block bodies",
            "stub": "objective of the fit step is a seeded quadratic written by the harness",
        },
        "assumptions": [
            "operations follow configuration order: create, fix/free, tie, bound, then the history",
            "vm.set/vm.get default to fit coordinates under a bound (val_in_fit=True) while set_all(dict)/get_all_dic use physical values: mirrored in the reference model, not 'corrected'",
            "ties are between real components; the complex value of a parameter is derived",
            "round trips (get_all_dic -> set_all) are judged outside mask blocks only: inside a mask block reads are overridden by definition",
        ],
    }


# --------------------------------------------------------------------------------- generation


def generate(job):
    rs = Stream(job["seed"], "C16")
    rv, rt, rb, ro = rs.child("vars"), rs.child("ties"), rs.child("bounds"), rs.child("ops")
    nv = rv.randint(2, 6)
    vars_ = []
    for i in range(nv):
        t = rv.weighted([("real", 4), ("cplx", 5), ("cplx_shape", 1), ("real_shape", 1)])
        v = {"name": "v%d" % i, "type": t}
        if t == "real":
            v["value"] = round(rv.uniform(-2, 3), 4) if rv.chance(0.8) else None
            v["fix"] = rv.chance(0.25)
        elif t == "cplx":
            v["polar"] = rv.choice([True, True, False, None])
            v["fix"] = rv.chance(0.2)
            v["fix_vals"] = [round(rv.uniform(0.2, 2), 3), round(rv.uniform(-3, 3), 3)]
        elif t == "cplx_shape":
            v["polar"] = rv.choice([True, False])
            v["shape"] = [2]
        else:
            v["shape"] = [2]
            v["value"] = round(rv.uniform(-1, 1), 3)
        vars_.append(v)
    ties = []
    for _ in range(rt.weighted([(0, 3), (1, 4), (2, 2), (3, 1)])):
        k = rt.weighted([("sameas", 4), ("set_same_real", 3), ("r_shareto", 2), ("set_share_r", 1)])
        ties.append({"kind": k, "a": rt.randrange(100), "b": rt.randrange(100), "c": rt.randrange(100)})
    bounds = []
    for _ in range(rb.weighted([(0, 3), (1, 4), (2, 2)])):
        lo = round(rb.uniform(-2, 1), 3)
        hi = round(lo + rb.uniform(0.5, 4), 3)
        if rb.chance(0.3):
            # a limit of exactly 0 (a radius, a width, a one-sided phase window)
            if rb.chance(0.5):
                lo, hi = 0.0, round(rb.uniform(0.5, 4), 3)
            else:
                lo, hi = round(-rb.uniform(0.5, 4), 3), 0.0
        kind = rb.weighted([("two", 5), ("lower", 2), ("upper", 2)])
        func = rb.choice(FUNCS) if kind == "two" else None
        bounds.append({"name": rb.randrange(100), "lo": None if kind == "upper" else lo, "hi": None if kind == "lower" else hi, "func": func})
    nops = ro.randint(6, 40)
    enabled = set(ro.sample(sorted(set(OPS)), ro.randint(6, len(set(OPS)))))
    pool = [o for o in OPS if o in enabled]
    ops = [gen_op(ro, pool, 0, job.get("faulty")) for _ in range(nops)]
    return {"vars": vars_, "ties": ties, "bounds": bounds, "ops": ops, "rng_seed": rs.child("rng").randrange(1 << 30), "polar_default": rv.choice([True, True, False]), "allow_overlap": rt.chance(0.1)}


def gen_op(ro, pool, depth, faulty):
    k = ro.choice(pool)
    op = {"k": k, "i": ro.randrange(1000), "v": round(ro.uniform(-3, 3), 4)}
    if k == "set" and ro.chance(0.25):
        # edge values: exact zero, exact multiples of pi (branch cut of the phase wrap), negative radius
        op["v"] = ro.choice([0.0, math.pi, -math.pi, 3 * math.pi, 5 * math.pi, -3 * math.pi, -1.0, 2 * math.pi])
        op["fit"] = False
    if k in ("set", "get"):
        op["fit"] = ro.choice([True, True, False])
    if k in ("set_all_dict",):
        op["n"] = ro.randint(1, 4)
        op["vals"] = [round(ro.uniform(-2.5, 2.5), 4) for _ in range(4)]
    if k in ("set_all_list", "set_trans_var", "set_all_fit"):
        op["vals"] = [round(ro.uniform(-2.5, 2.5), 4) for _ in range(16)]
    if k == "refresh":
        op["script"] = ro.weighted([("plain", 4), ("edges", 2), ("outside_first", 1)])
        op["init_val"] = ro.choice(["default", "default", "own_sigma", "empty"])
    if k == "trans_params":
        op["polar"] = ro.chance(0.5)
    if k == "minimize":
        op["maxiter"] = ro.choice([1, 2, 3])
        op["target"] = [round(ro.uniform(-1, 1), 3) for _ in range(16)]
    if k in ("mask_block", "temp_block"):
        op["n"] = ro.randint(1, 3)
        op["vals"] = [round(ro.uniform(-2, 2), 4) for _ in range(3)]
        body_pool = [o for o in pool if o not in ("bound_cycle", "minimize")] or ["get"]
        op["body"] = [gen_op(ro, body_pool, depth + 1, faulty) for _ in range(ro.randint(0, 3))] if depth < 2 else []
        if faulty and ro.chance(0.4):
            op["raise"] = True
    return op


# --------------------------------------------------------------------------------- reference maths


def ref_x2y(b, x):
    lo, hi, func = b
    if func == "a+(b-a)/(1+exp(-x))":
        return lo + (hi - lo) / (1 + math.exp(-x))
    if func == "(b-a)*(atan(x)/pi+1/2)+a":
        return (hi - lo) * (math.atan(x) / math.pi + 0.5) + lo
    if lo is not None and hi is not None:
        return (hi - lo) * (math.sin(x) + 1) / 2 + lo
    if lo is not None:
        return lo - 1 + math.sqrt(x * x + 1)
    if hi is not None:
        return hi + 1 - math.sqrt(x * x + 1)
    return x


def clip(b, y):
    lo, hi, _ = b
    if lo is not None and y < lo:
        return lo
    if hi is not None and y > hi:
        return hi
    return y


class Failure(Exception):
    pass


class UserRaise(Exception):
    pass


# --------------------------------------------------------------------------------- session


class Session:
    def __init__(self, spec, log):
        import numpy as np
        import tensorflow as tf

        from tf_pwa.variable import Variable, VarsManager

        self.np, self.tf = np, tf
        self.spec, self.log = spec, log
        self.changing = 0
        vm = VarsManager(dtype="float64")
        vm.polar = spec.get("polar_default", True)
        self.vm = vm
        self.V = []
        self.cplx = []  # complex names
        self.realnames = []
        for v in spec["vars"]:
            t = v["type"]
            if t == "real":
                var = Variable(v["name"], vm=vm, value=v.get("value"), fix=bool(v.get("fix")) and v.get("value") is not None)
            elif t == "cplx":
                # one coordinate convention per manager, as a configuration has (vm.polar); single
                # parameters are switched later by the history
                var = Variable(v["name"], cplx=True, vm=vm, polar=None, fix=bool(v.get("fix")), fix_vals=tuple(v.get("fix_vals", (1.0, 0.0))))
            elif t == "cplx_shape":
                var = Variable(v["name"], shape=v["shape"], cplx=True, vm=vm, polar=None)
            else:
                var = Variable(v["name"], shape=v["shape"], vm=vm, value=v.get("value"))
            self.V.append(var)
        for var in self.V:
            if var.cplx:
                self.cplx += [n[:-1] for n in var.all_name_list if n.endswith("r")]
            self.realnames += list(var.all_name_list)
        self.fixed0 = set(n for n in self.realnames if n not in vm.trainable_vars)
        # ---- ties (configuration order: after fix/free)
        self.share_r = []
        scal_c = [var for var in self.V if var.cplx and not var.shape]
        scal_r = [n for var in self.V if not var.cplx for n in var.all_name_list]
        tied_vars = set()
        allow_overlap = bool(spec.get("allow_overlap"))

        def claim(*names):
            """a tie may only touch variables that are not tied yet, unless the session asks for overlapping ties"""
            names = [n.split("_")[0] for n in names]  # element v1_0 belongs to variable v1
            if not allow_overlap and any(n in tied_vars for n in names):
                return False
            tied_vars.update(names)
            return True

        for t in spec["ties"]:
            k = t["kind"]
            try:
                if k == "sameas" and len(self.V) >= 2:
                    a = self.V[t["a"] % len(self.V)]
                    cands = [w for w in self.V if w is not a and w.cplx == a.cplx and w.shape == a.shape]
                    if cands:
                        b = cands[t["b"] % len(cands)]
                        if not claim(a.name, b.name):
                            continue
                        a.sameas(b)
                        log.ev("tie", tie=k, a=a.name, b=b.name)
                elif k == "set_same_real" and len(scal_r) >= 2:
                    names = sorted(set([scal_r[t["a"] % len(scal_r)], scal_r[t["b"] % len(scal_r)]] + ([scal_r[t["c"] % len(scal_r)]] if t["c"] % 3 == 0 else [])))
                    if len(names) >= 2 and claim(*names):
                        vm.set_same(list(names))
                        log.ev("tie", tie=k, names=names)
                elif k == "r_shareto" and len(scal_c) >= 2:
                    a = scal_c[t["a"] % len(scal_c)]
                    cands = [w for w in scal_c if w is not a]
                    b = cands[t["b"] % len(cands)]
                    if not claim(a.name, b.name):
                        continue
                    a.r_shareto(b)
                    self.share_r.append(sorted([a.name, b.name]))
                    log.ev("tie", tie=k, a=a.name, b=b.name)
                elif k == "set_share_r" and len(self.cplx) >= 2:
                    names = sorted(set([self.cplx[t["a"] % len(self.cplx)], self.cplx[t["b"] % len(self.cplx)]]))
                    if len(names) == 2 and claim(*names):
                        vm.set_share_r(list(names))
                        self.share_r.append(names)
                        log.ev("tie", tie=k, names=names)
            except Exception as e:  # a tie the library refuses is a refused configuration, not a verdict
                log.ev("tie-refused", tie=k, err=type(e).__name__)
        # ---- bounds
        self.bounds = {}
        self.in_temp = 0
        self.installed = set()  # names whose bound is installed according to the HISTORY (not read from the library)
        for b in spec["bounds"]:
            cands = [n for n in self.realnames if not n.endswith("i")]
            name = cands[b["name"] % len(cands)]
            if name in self.bounds:
                continue
            # at most one bound per tie group (two bounds on tied names can be contradictory)
            if any(vm.variables[o] is vm.variables[name] for o in self.bounds):
                continue
            try:
                vm.set_bound({name: (b["lo"], b["hi"])}, func=b.get("func"))
            except Exception as e:  # the library refuses this bound (e.g. SymPy finds no inverse): a refused configuration
                vm.bnd_dic.pop(name, None)
                log.ev("bound-refused", name=name, lo=b["lo"], hi=b["hi"], err=type(e).__name__)
                log.count("probe.bound_refused_by_library")
                continue
            self.bounds[name] = (b["lo"], b["hi"], b.get("func"))
            self.installed.add(name)
            log.ev("bound", name=name, lo=b["lo"], hi=b["hi"], func=b.get("func"))
        # values of bounded parameters start inside their range (a configuration does that)
        for name, b in self.bounds.items():
            y = float(vm.variables[name].numpy())
            yc = clip(b, y)
            if b[0] is not None and b[1] is not None:
                yc = min(max(y, b[0] + 0.05 * (b[1] - b[0])), b[1] - 0.05 * (b[1] - b[0]))
            elif yc == y and ((b[0] is not None and y <= b[0]) or (b[1] is not None and y >= b[1])):
                pass
            if b[0] is not None and b[1] is None:
                yc = max(y, b[0] + 0.1)
            if b[1] is not None and b[0] is None:
                yc = min(y, b[1] - 0.1)
            if yc != y and name in vm.trainable_vars:
                vm.set(name, yc, val_in_fit=False)
        # ---- reference model initial state: observed after setup (+ structural checks)
        self.groups = {}  # name -> gid  (tie groups: names sharing one value)
        seen, self.tie_overlap = {}, False
        for e in log.events:
            if e[0] == "tie":
                names = e[1].get("names") or [e[1].get("a"), e[1].get("b")]
                for n in set(str(x).split("_")[0] for x in names):
                    seen[n] = seen.get(n, 0) + 1
        self.tie_overlap = any(c > 1 for c in seen.values())
        self.init_reference()

    # ------------------------------------------------------------------ reference
    def init_reference(self):
        vm = self.vm
        # tie groups as declared to the library (its public same_list), closed transitively at real-name level
        parent = {n: n for n in self.realnames}

        def find(x):
            while parent[x] != x:
                parent[x] = parent[parent[x]]
                x = parent[x]
            return x

        def union(a, b):
            if a in parent and b in parent:
                parent[find(a)] = find(b)

        for l in vm.same_list:
            names = []
            for n in l:
                if n in parent:
                    names.append(n)
                elif n + "r" in parent:  # complex names
                    names.append(n)
            real = [n for n in names if n in parent]
            cplx = [n for n in names if n not in parent]
            for a, b in zip(real, real[1:]):
                union(a, b)
            for a, b in zip(cplx, cplx[1:]):
                union(a + "r", b + "r")
                union(a + "i", b + "i")
        self.find = find
        self.gid = {n: find(n) for n in self.realnames}
        obs = {k: float(v) for k, v in vm.get_all_dic().items()}
        self.val = {}
        for n in self.realnames:
            g = self.gid[n]
            if g in self.val and self.val[g] != obs[n]:
                self.fail("tied-read-equal", "setup", "tied names %s read different values right after the ties were declared" % sorted(m for m in self.realnames if self.gid[m] == g))
            self.val.setdefault(g, obs[n])
        members = {}
        for n in self.realnames:
            members.setdefault(self.gid[n], []).append(n)
        self.members = members
        self.fixed = {g: any(m in self.fixed0 for m in ms) for g, ms in members.items()}
        self.mask = {}
        self.check_free_list("setup")

    def fail(self, oracle, opk, detail):
        key = "%s|%s" % (opk, oracle)
        if self.tie_overlap:
            key += "|ties=overlapping"  # tie bookkeeping of overlapping declarations is a recorded finding
        elif oracle.startswith("tied-") or oracle == "fixed-not-free":
            key += "|ties=disjoint"
        self.log.fail(oracle, key, detail, step=self.step_no)
        raise Failure()

    step_no = -1

    def zval(self, c, src=None):
        """complex value of complex name c from component values (dict name->float) and the polar flag"""
        vm = self.vm
        src = src if src is not None else {k: float(v) for k, v in vm.get_all_dic().items()}
        r, i = src[c + "r"], src[c + "i"]
        if vm.complex_vars.get(c):
            return complex(r * math.cos(i), r * math.sin(i))
        return complex(r, i)

    def check_free_list(self, opk):
        vm = self.vm
        tv = list(vm.trainable_vars)
        if len(tv) != len(set(tv)):
            self.fail("free-list-once", opk, "a name occurs twice among the free parameters: %s" % tv)
        got = {}
        for n in tv:
            if n not in self.gid:
                continue
            got.setdefault(self.gid[n], []).append(n)
        for g, ms in self.members.items():
            k = len(got.get(g, []))
            if self.fixed[g] and k:
                self.fail("fixed-not-free", opk, "fixed parameter (group %s) is listed among the free parameters: %s" % (ms, got[g]))
            if not self.fixed[g] and k != 1:
                self.fail("tied-count-once", opk, "tie group %s contributes %d entries to the free parameters (must be exactly 1): %s" % (ms, k, got.get(g)))
        # all names of a group are the same stored value
        obs = {k: float(v) for k, v in vm.get_all_dic().items()}
        for g, ms in self.members.items():
            vals = set(obs[m] for m in ms)
            if len(vals) != 1 and not any(m in self.mask for m in ms):
                self.fail("tied-read-equal", opk, "tied names %s read different values %s" % (ms, [obs[m] for m in ms]))

    def expect_all(self, opk, exact=True, tol=0.0, only=None, skip=()):
        """vm.get_all_dic() must equal the reference (masked names read their mask)"""
        obs = {k: float(v) for k, v in self.vm.get_all_dic().items()}
        for n in self.realnames:
            if n in skip or (only is not None and n not in only):
                continue
            want = self.val[self.gid[n]]
            if n in self.mask:
                want = float(self.np.float64(self.mask[n]))
                if abs(obs[n] - want) > 1e-6 * (1 + abs(want)):
                    self.fail("mask-read", opk, "masked %s reads %r, mask is %r" % (n, obs[n], want))
                continue
            if exact and obs[n] != want:
                what = "fixed-unchanged" if self.fixed[self.gid[n]] else "value-as-assigned"
                self.fail(what, opk, "%s reads %r but the reference model holds %r after %s" % (n, obs[n], want, opk))
            if not exact and abs(obs[n] - want) > tol * (1 + abs(want)):
                self.fail("value-as-assigned", opk, "%s reads %r, reference %r (tol %g)" % (n, obs[n], want, tol))
        return obs

    def resync(self, names, opk, allow_fixed=False):
        """the operation legitimately produced new values for `names` (random refresh, minimiser,
        coordinate switch): adopt them, but a fixed group may only change if allow_fixed"""
        obs = {k: float(v) for k, v in self.vm.get_all_dic().items()}
        groups = set(self.gid[n] for n in names)
        for g in groups:
            ms = self.members[g]
            if any(m in self.mask for m in ms):
                continue
            new = obs[ms[0]]
            if self.fixed[g] and not allow_fixed and new != self.val[g]:
                self.fail("fixed-unchanged", opk, "fixed parameter %s changed from %r to %r in %s without being assigned" % (ms, self.val[g], new, opk))
            self.val[g] = new
        # everything else must be untouched
        self.expect_all(opk, exact=True, skip=[n for n in self.realnames if self.gid[n] in groups])

    # ------------------------------------------------------------------ helpers
    def pick_real(self, i, free_only=False, nomask=False):
        c = [n for n in self.realnames if (not free_only or not self.fixed[self.gid[n]])]
        if nomask:
            c = [n for n in c if n not in self.mask] or c
        if not c:
            c = self.realnames
        return c[i % len(c)]

    def free_heads(self):
        return list(self.vm.trainable_vars)

    def lib_x2y(self, name, x):
        return self.vm.bnd_dic[name].get_x2y(x)

    # ------------------------------------------------------------------ operations
    def run_op(self, op, depth=0):
        import numpy as np

        vm, log = self.vm, self.log
        k = op["k"]
        log.count("op." + k)
        if k == "set":
            n = self.pick_real(op["i"])
            v = op["v"]
            fit = op.get("fit", True)
            vm.set(n, v, val_in_fit=fit)
            b = self.bounds.get(n) if n in self.installed else None
            y = ref_x2y(b, v) if (b and fit) else v
            self.val[self.gid[n]] = y
            self.changing += 1
            if b and fit:
                got = float(vm.variables[n].numpy())
                if abs(got - y) > 1e-10 * (1 + abs(y)):
                    self.fail("bound-x2y", k, "set(%s, %r) under bound %s stored %r, transformation gives %r" % (n, v, b, got, y))
                self.val[self.gid[n]] = got
            self.expect_all(k)
        elif k == "var_set":
            # assignments through the Variable objects (set_value / set_rho / set_phi): the same semantics as
            # vm.set on the components (fit coordinates under an installed bound)
            scal = [w for w in self.V if not w.shape]
            if scal and not self.mask:
                var = scal[op["i"] % len(scal)]
                v1, v2 = op["v"], round(op["v"] * 0.37 - 0.5, 4)
                how = (op["i"] // 7) % 3
                assigned = []
                if not var.cplx:
                    var.set_value(v1)
                    assigned = [(var.name, v1)]
                elif how == 0:
                    var.set_value([v1, v2])
                    assigned = [(var.name + "r", v1), (var.name + "i", v2)]
                elif how == 1:
                    var.set_rho(v1)
                    assigned = [(var.name + "r", v1)]
                else:
                    var.set_phi(v2)
                    assigned = [(var.name + "i", v2)]
                for n, v in assigned:
                    b = self.bounds.get(n) if n in self.installed else None
                    self.val[self.gid[n]] = ref_x2y(b, v) if b else v
                    if b:
                        got = float(vm.variables[n].numpy())
                        if abs(got - self.val[self.gid[n]]) > 1e-10 * (1 + abs(got)):
                            self.fail("bound-x2y", k, "Variable setter stored %r for %s, transformation of %r gives %r" % (got, n, v, self.val[self.gid[n]]))
                        self.val[self.gid[n]] = got
                self.changing += 1
                self.expect_all(k)
        elif k == "get":
            n = self.pick_real(op["i"])
            fit = op.get("fit", True)
            got = float(vm.get(n, val_in_fit=fit))
            y = self.val[self.gid[n]]
            if n in self.installed and fit:
                b = self.bounds[n]
                # x such that x2y(x) == clip(y): check through the forward map (no branch assumption)
                back = ref_x2y(b, got)
                if abs(back - clip(b, y)) > 1e-9 * (1 + abs(y)):
                    self.fail("bound-inverse", k, "get(%s) in fit coordinates returned x=%r with y(x)=%r but the stored value is %r (bound %s)" % (n, got, back, y, b))
            elif got != y:
                self.fail("value-as-assigned", k, "get(%s)=%r, reference %r" % (n, got, y))
            log.ev("get", n=n, v=got)
        elif k == "set_all_dict":
            d = {}
            for j in range(op["n"]):
                n = self.pick_real(op["i"] + 7 * j)
                d[n] = op["vals"][j]
            vm.set_all(dict(d))
            # later entries win inside a tie group; dict order is insertion order
            for n, v in d.items():
                self.val[self.gid[n]] = v
            self.changing += 1
            self.expect_all(k)
        elif k == "set_all_list":
            heads = self.free_heads()
            vals = op["vals"][: len(heads)]
            if len(vals) == len(heads) and heads:
                vm.set_all(list(vals))
                for n, v in zip(heads, vals):
                    self.val[self.gid[n]] = v
                self.changing += 1
            self.expect_all(k)
        elif k == "roundtrip":
            if not self.mask:
                before = {kk: float(v) for kk, v in vm.get_all_dic().items()}
                vm.set_all(vm.get_all_dic())
                after = {kk: float(v) for kk, v in vm.get_all_dic().items()}
                if before != after:
                    diff = [(n, before[n], after[n]) for n in before if before[n] != after[n]]
                    self.fail("read-write-identity", k, "set_all(get_all_dic()) changed %s" % diff[:4])
                self.expect_all(k)
        elif k == "save_reload":
            if not self.mask:
                before = {kk: float(v) for kk, v in vm.get_all_dic().items()}
                txt = json.dumps(before)
                vm.set_all(json.loads(txt))
                after = {kk: float(v) for kk, v in vm.get_all_dic().items()}
                if before != after:
                    diff = [(n, before[n], after[n]) for n in before if before[n] != after[n]]
                    self.fail("read-write-identity", k, "saving to JSON and loading changed %s" % diff[:4])
        elif k == "refresh":
            self.do_refresh(op)
        elif k in COMPLEX_OPS:
            self.do_complex(op)
        elif k == "set_trans_var":
            heads = self.free_heads()
            xs = op["vals"][: len(heads)]
            if heads and len(xs) == len(heads):
                vm.set_trans_var(list(xs))
                for n, x in zip(heads, xs):
                    y = ref_x2y(self.bounds[n], x) if n in self.installed else x
                    got = float(vm.variables[n].numpy())
                    if abs(got - y) > 1e-10 * (1 + abs(y)):
                        self.fail("bound-x2y", k, "set_trans_var stored %r for %s, transformation of %r gives %r" % (got, n, x, y))
                    self.val[self.gid[n]] = got
                self.changing += 1
            self.expect_all(k)
        elif k == "set_all_fit":
            heads = self.free_heads()
            xs = op["vals"][: len(heads)]
            if heads and len(xs) == len(heads):
                vm.set_all(list(xs), val_in_fit=True)
                for n, x in zip(heads, xs):
                    y = ref_x2y(self.bounds[n], x) if n in self.installed else x
                    got = float(vm.variables[n].numpy())
                    if abs(got - y) > 1e-10 * (1 + abs(y)):
                        self.fail("bound-x2y", k, "set_all(val_in_fit=True) stored %r for %s, transformation of %r gives %r" % (got, n, x, y))
                    self.val[self.gid[n]] = got
                self.changing += 1
            self.expect_all(k)
        elif k == "minimize":
            self.do_minimize(op)
        elif k == "bound_cycle":
            if not self.mask and vm.bnd_dic:
                old = vm.remove_bound()
                self.expect_all(k + ".remove")
                self.check_free_list(k)
                # with the bounds removed every name reads its value in both coordinate conventions
                for n in sorted(self.installed):
                    got = float(vm.get(n, val_in_fit=True))
                    if got != self.val[self.gid[n]]:
                        self.fail("bound-inverse", k + ".removed", "after remove_bound() get(%s) still returns a transformed coordinate %r for the value %r: a bound was left installed" % (n, got, self.val[self.gid[n]]))
                    for m in self.members[self.gid[n]]:
                        g2 = float(vm.get(m, val_in_fit=True))
                        if g2 != self.val[self.gid[n]]:
                            self.fail("tied-read-equal", k + ".removed", "after remove_bound() the tied names %s read different values through get(): %s gives %r, value %r" % (self.members[self.gid[n]], m, g2, self.val[self.gid[n]]))
                vm.set_bound({n: tuple(b) for n, b in old.items() if n not in self.bounds or self.bounds[n][2] is None})
                for n, b in self.bounds.items():
                    if b[2] is not None and n in old:
                        vm.set_bound({n: (b[0], b[1])}, func=b[2])
                self.expect_all(k + ".set")
                log.count("probe.bound_cycle")
        elif k == "bad_rebound":
            # a replacement bound that the library must reject (lower > upper, or an expression SymPy cannot
            # parse): the rejected call may not change anything - the old bound stays installed
            names = sorted(self.installed)
            if names and not self.mask:
                n = names[op["i"] % len(names)]
                try:
                    if op["i"] % 2:
                        vm.set_bound({n: (5.0, -5.0)}, overwrite=True)
                    else:
                        vm.set_bound({n: (self.bounds[n][0], self.bounds[n][1])}, func="(b-a)*sin(x))+a", overwrite=True)
                    log.count("probe.bad_rebound_accepted")
                    # accepted after all: the reference follows whatever is installed now (no claim)
                    self.installed.discard(n)
                    if n in vm.bnd_dic:
                        vm.bnd_dic.pop(n)
                except Exception:
                    log.count("fault.rejected_set_bound")
                self.expect_all(k)
                # probe the coordinate convention through the public read path
                if n in self.installed:
                    x = float(vm.get(n, val_in_fit=True))
                    y = self.val[self.gid[n]]
                    back = ref_x2y(self.bounds[n], x)
                    if abs(back - clip(self.bounds[n], y)) > 1e-9 * (1 + abs(y)):
                        self.fail("bound-inverse", k, "after a REJECTED set_bound on %s the old bound %s is gone: get() returns %r for the stored value %r" % (n, self.bounds[n], x, y))
        elif k == "bound_math":
            self.do_bound_math(op)
        elif k == "read_paths":
            obs = self.expect_all(k)
            for var in self.V:
                if var.cplx and not var.shape and not any((var.name + s) in self.mask for s in ("r", "i")):
                    z = complex(var().numpy())
                    zr = self.zval(var.name, obs)
                    if abs(z - zr) > 1e-12 * (1 + abs(zr)):
                        self.fail("tied-read-equal", k, "Variable %s() = %r but its components give %r" % (var.name, z, zr))
                elif var.cplx and var.shape and not any(n in self.mask for n in var.all_name_list):
                    # an array-valued parameter read as a whole: every component in its own coordinate form
                    zs = np.array(var().numpy()).reshape(-1)
                    comps = [n[:-1] for n in var.all_name_list if n.endswith("r")]
                    for z, c in zip(zs, comps):
                        zr = self.zval(c, obs)
                        if abs(complex(z) - zr) > 1e-12 * (1 + abs(zr)):
                            self.fail("tied-read-equal", k, "component %s of the array parameter %s reads %r through Variable() but its stored components give %r (polar flag %s)" % (c, var.name, complex(z), zr, vm.complex_vars.get(c)))
            allv = vm.get_all_val()
            for n, v in zip(vm.trainable_vars, allv):
                if n in self.gid and n not in self.mask and float(v) != self.val[self.gid[n]]:
                    self.fail("tied-read-equal", k, "get_all_val gives %r for %s, get_all_dic %r" % (float(v), n, self.val[self.gid[n]]))
        elif k in ("mask_block", "temp_block"):
            self.do_block(op, depth)
        else:
            raise ValueError(k)
        self.check_free_list(k)
        log.state(sorted(self.val.items()), sorted(vm.complex_vars.items(), key=str), sorted(self.mask.items()))

    def do_refresh(self, op):
        from sim.seams import rng_seam

        vm = self.vm
        mode = op.get("script", "plain")
        count = [0]

        def script(role, shape, idx, u):
            count[0] += 1
            if mode == "edges":
                return self.np.where(u < 0.5, 0.0, 1.0 - 2.0 ** -53)
            return None

        kw = {}
        iv = op.get("init_val", "default")
        if iv == "empty":
            kw["init_val"] = {}
        elif iv == "own_sigma":
            kw["init_val"] = {}
            for n in self.realnames:
                if n.endswith(("r", "i")):
                    continue
                mu = self.val[self.gid[n]]
                b = self.bounds.get(n)
                if b is not None:  # a Gaussian start value is centred inside its range (else refresh_vars never terminates)
                    lo = b[0] if b[0] is not None else (b[1] - 2.0)
                    hi = b[1] if b[1] is not None else (b[0] + 2.0)
                    mu = 0.5 * (lo + hi)
                kw["init_val"][n] = (mu, 0.1)
        if self.mask:
            return
        with rng_seam(self.spec["rng_seed"] + self.step_no, script=script if mode == "edges" else None):
            vm.refresh_vars(**kw)
        self.log.count("fault.rng_script_" + mode if mode != "plain" else "probe.refresh_plain")
        free = [n for n in self.realnames if not self.fixed[self.gid[n]]]
        self.changing += 1
        self.resync(free, "refresh")

    def do_complex(self, op):
        vm = self.vm
        k = op["k"]
        if not self.cplx:
            return
        if self.mask:
            return self.do_complex_masked(op)
        c = self.cplx[op["i"] % len(self.cplx)]
        before = {kk: float(v) for kk, v in vm.get_all_dic().items()}
        zb = {cc: self.zval(cc, before) for cc in self.cplx}
        flags_before = dict(vm.complex_vars)
        targets = list(self.cplx)
        if k == "rp2xy":
            vm.rp2xy(c)
            targets = [c]
        elif k == "xy2rp":
            vm.xy2rp(c)
            targets = [c]
        elif k == "rp2xy_all":
            vm.rp2xy_all()
        elif k == "xy2rp_all":
            vm.xy2rp_all()
        elif k == "std_polar":
            vm.std_polar(c)
            targets = [c]
        elif k == "std_polar_all":
            vm.std_polar_all()
        elif k == "standard_complex":
            vm.standard_complex()
        elif k == "trans_params":
            vm.trans_params(op.get("polar", True))
        self.changing += 1
        after = {kk: float(v) for kk, v in vm.get_all_dic().items()}
        shared = set(n for pair in self.share_r for n in pair)
        for cc in targets:
            za = self.zval(cc, after)
            if abs(za - zb[cc]) > 1e-12 * (1 + abs(zb[cc])):
                tie = "share_r" if cc in shared else ("tied" if len(self.members[self.gid[cc + "r"]]) > 1 else "untied")
                if self.tie_overlap:
                    tie += "|ties=overlapping"
                self.log.fail("complex-value-preserved", "%s|complex-value-preserved|tie=%s" % (k, tie), "%s changed the complex value of %s from %r to %r (flags %s -> %s)" % (k, cc, zb[cc], za, flags_before.get(cc), vm.complex_vars.get(cc)), step=self.step_no)
                raise Failure()
        if k in ("std_polar", "std_polar_all") or (k == "trans_params" and op.get("polar", True)):
            for cc in targets:
                r, p = after[cc + "r"], after[cc + "i"]
                if not (r >= 0 and -math.pi <= p < math.pi):
                    tie = "share_r" if cc in shared else "plain"
                    self.log.fail("standard-range", "%s|standard-range|%s" % (k, tie), "after %s: %s has r=%r phi=%r (need r>=0, -pi<=phi<pi)" % (k, cc, r, p), step=self.step_no)
                    raise Failure()
        # components of switched parameters (and whatever is tied to them) legitimately changed
        comps = []
        for cc in targets:
            comps += [cc + "r", cc + "i"]
            for o in self.cplx:  # a sign flip of a shared radius moves every sharing phase by pi
                if o != cc and vm.variables[o + "r"] is vm.variables[cc + "r"]:
                    comps += [o + "r", o + "i"]
        self.resync(comps, k, allow_fixed=True)

    def stored(self):
        """stored (unmasked) component values: the public `variables` mapping"""
        return {n: float(self.vm.variables[n].numpy()) for n in self.realnames}

    def do_complex_masked(self, op):
        """a coordinate switch / standardisation while a mask is active: a representation change of the STORED
        value - the mask only overrides reads - so the stored complex value must survive it"""
        vm = self.vm
        k = op["k"]
        shared = set(n for pair in self.share_r for n in pair)
        if self.tie_overlap or shared:
            return
        before = self.stored()
        zb = {cc: self.zval(cc, before) for cc in self.cplx}
        c = self.cplx[op["i"] % len(self.cplx)]
        targets = list(self.cplx)
        if k == "rp2xy":
            vm.rp2xy(c)
            targets = [c]
        elif k == "xy2rp":
            vm.xy2rp(c)
            targets = [c]
        elif k == "rp2xy_all":
            vm.rp2xy_all()
        elif k == "xy2rp_all":
            vm.xy2rp_all()
        elif k == "std_polar":
            vm.std_polar(c)
            targets = [c]
        elif k == "std_polar_all":
            vm.std_polar_all()
        elif k == "standard_complex":
            vm.standard_complex()
        elif k == "trans_params":
            vm.trans_params(op.get("polar", True))
        self.log.count("probe.coordinate_switch_inside_mask")
        after = self.stored()
        for cc in targets:
            za = self.zval(cc, after)
            if abs(za - zb[cc]) > 1e-12 * (1 + abs(zb[cc])):
                self.log.fail("complex-value-preserved", "%s|complex-value-preserved|inside-mask" % k, "%s inside a mask_params block changed the STORED complex value of %s from %r to %r (mask %s)" % (k, cc, zb[cc], za, sorted(self.mask)), step=self.step_no)
                raise Failure()
        # reference: adopt the new component values of the switched parameters; everything else unchanged
        moved = set(self.gid[cc + s] for cc in targets for s in ("r", "i"))  # tie groups of the switched components
        for n in self.realnames:
            g = self.gid[n]
            if g in moved:
                self.val[g] = after[n]
            elif after[n] != before[n]:
                self.fail("value-as-assigned", k, "%s changed although only %s were switched (inside a mask block)" % (n, targets))

    def do_minimize(self, op):
        tf, np, vm = self.tf, self.np, self.vm
        heads = self.free_heads()
        if not heads or self.mask:
            return
        target = np.array(op["target"][: len(heads)] + [0.0] * max(0, len(heads) - len(op["target"])))

        def fcn():
            v = tf.stack([vm.read(n) for n in vm.trainable_vars])
            return tf.reduce_sum((v - target) ** 2)

        try:
            vm.minimize(fcn, jac=True, method="BFGS", mini_kwargs={"options": {"maxiter": op.get("maxiter", 2)}})
        except Exception as e:
            self.log.ev("minimize-raised", err=type(e).__name__, msg=str(e)[:100])
            self.log.count("probe.minimize_raised")
        self.changing += 1
        free = [n for n in self.realnames if not self.fixed[self.gid[n]]]
        self.resync(free, "minimize")
        # (that a bounded parameter stays inside its bound during a fit is C08's clause, not C16's)

    def do_bound_math(self, op):
        vm = self.vm
        rs = Stream(self.spec["rng_seed"], "bm", self.step_no)
        for n, b in self.bounds.items():
            if n not in vm.bnd_dic:
                continue
            bd = vm.bnd_dic[n]
            lo, hi, func = b
            ys = []
            if lo is not None and hi is not None:
                ys = [lo, hi, lo + (hi - lo) * rs.random(), lo + 1e-9 * (hi - lo), hi - 1e-9 * (hi - lo)]
                if func is not None:
                    ys = [lo + (hi - lo) * rs.uniform(0.02, 0.98) for _ in range(3)]
            elif lo is not None:
                ys = [lo, lo + rs.uniform(0, 5), lo + 1e-7]
            else:
                ys = [hi, hi - rs.uniform(0, 5), hi - 1e-7]
            for y in ys:
                x = bd.get_y2x(y)
                y2 = bd.get_x2y(x)
                if not (abs(y2 - y) <= 1e-9 * (1 + abs(y))):
                    self.fail("bound-inverse", "bound_math", "bound %s: y=%r -> x=%r -> y=%r" % (b, y, x, y2))
            for _ in range(2):
                x = rs.uniform(-2.5, 2.5)
                h = 1e-5
                num = (bd.get_x2y(x + h) - bd.get_x2y(x - h)) / (2 * h)
                ana = bd.get_dydx(x)
                if abs(num - ana) > 1e-6 * (1 + abs(ana)):
                    self.fail("bound-slope", "bound_math", "bound %s: dydx(%r)=%r, central difference %r" % (b, x, ana, num))
                yref = ref_x2y(b, x)
                if abs(bd.get_x2y(x) - yref) > 1e-10 * (1 + abs(yref)):
                    self.fail("bound-x2y", "bound_math", "bound %s: x2y(%r)=%r, documented formula gives %r" % (b, x, bd.get_x2y(x), yref))
            self.log.count("probe.bound_math")

    def do_block(self, op, depth):
        vm = self.vm
        k = op["k"]
        if self.mask and k == "temp_block":
            pass
        names = []
        for j in range(op["n"]):
            n = self.pick_real(op["i"] + 5 * j)
            if n not in names:
                names.append(n)
        params = {n: op["vals"][j] for j, n in enumerate(names)}
        saved_val = dict(self.val)
        saved_mask = dict(self.mask)
        exc = None
        try:
            if k == "mask_block":
                cm = vm.mask_params(dict(params))
            else:
                if self.mask:
                    return  # temp_params inside a mask block: judged by the C17 check
                cm = vm.temp_params(dict(params))
            with cm:
                if k == "temp_block":
                    self.in_temp += 1
                if k == "mask_block":
                    self.mask = dict(params)  # the library replaces (does not merge) the mask
                else:
                    for n, v in params.items():
                        self.val[self.gid[n]] = v
                self.expect_all(k + ".enter")
                for b in op.get("body", []):
                    if b["k"] in ("set", "set_all_dict", "set_all_list", "set_trans_var", "set_all_fit", "minimize", "refresh", "bound_cycle", "bad_rebound", "var_set"):
                        continue  # no assignments inside a block (the property does not say what a block must do with them)
                    if b["k"] in COMPLEX_OPS and (k != "mask_block" or self.in_temp):
                        continue  # a representation change inside a temp_params block is a permanent change of what it restores
                    self.run_op(b, depth + 1)
                if op.get("raise"):
                    self.log.count("fault.user_raise_in_block")
                    raise UserRaise()
        except UserRaise as e:
            exc = e
        if k == "temp_block":
            self.in_temp -= 1
        if k == "mask_block":
            pass  # nothing was assigned inside; coordinate switches updated self.val for the switched components
        else:
            self.val = saved_val
        self.mask = saved_mask
        self.changing += 1
        self.log.ev("block-exit", k=k, exc=exc is not None)
        obs = {kk: float(v) for kk, v in vm.get_all_dic().items()}
        for n in self.realnames:
            want = self.val[self.gid[n]]
            if n in self.mask:
                continue
            if obs[n] != want:
                self.log.fail("block-restores", "%s|block-restores|%s%s" % (k, "exception" if exc is not None else "normal-exit", "|ties=overlapping" if self.tie_overlap else ""), "after leaving %s, %s reads %r instead of %r" % (k, n, obs[n], want), step=self.step_no)
                raise Failure()


def execute(spec):
    from sim.env import Log

    log = Log(seed=spec.get("rng_seed"), prop="C16")
    nontrivial = False
    try:
        ses = Session(spec, log)
    except Failure:
        return log.result(spec=spec, nontrivial=True, opkinds={})
    try:
        for i, op in enumerate(spec["ops"]):
            ses.step_no = i
            try:
                ses.run_op(op)
            except (Failure, UserRaise):
                raise
            except Exception as e:
                import traceback

                tb = traceback.extract_tb(e.__traceback__)
                if "/verif/" in tb[-1].filename:
                    raise  # a harness bug must never be mistaken for library behaviour
                # the library refused / raised by itself: an observation; state clauses still apply
                log.ev("op-raised", k=op["k"], err=type(e).__name__)
                log.count("probe.library_raised")
                free = [n for n in ses.realnames if not ses.fixed[ses.gid[n]]]
                ses.resync(free, op["k"] + "(raised)", allow_fixed=op["k"] in COMPLEX_OPS)
    except Failure:
        pass
    nontrivial = bool(spec["ties"] or spec["bounds"] or ses.cplx) and ses.changing >= 2
    out = log.result(spec=spec, nontrivial=nontrivial)
    out["opkinds"] = {k[3:]: v for k, v in log.counters.items() if k.startswith("op.")}
    return out


def run(job):
    spec = job["spec"] if job.get("mode") == "spec" else generate(job)
    return execute(spec)


def shrink_candidates(spec):
    for key in ("ties", "bounds", "vars"):
        for i in range(len(spec.get(key, []))):
            if key == "vars" and len(spec["vars"]) <= 1:
                break
            s = copy.deepcopy(spec)
            del s[key][i]
            yield s
    for i, op in enumerate(spec.get("ops", [])):
        if op.get("body"):
            for j in range(len(op["body"])):
                s = copy.deepcopy(spec)
                del s["ops"][i]["body"][j]
                yield s
        if op.get("raise"):
            s = copy.deepcopy(spec)
            del s["ops"][i]["raise"]
            yield s

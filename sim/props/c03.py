"""C03 — amplitudes superpose linearly; fit fractions obey the sum rule.

Reference model: from a SEPARATE reference instance of the same card the harness extracts, once, the
complex tensor A_k(x) of every chain k on the session's events with unit total coupling.  From then on
the reference is pure NumPy: A_S = sum_{k in S} c_k A_k, density = sum_hel |A_S|^2, I_S = sum_x w_x
density_S(x), FF_i = I_{R_i}/I, FF_ij = I_{R_i u R_j}/I - FF_i - FF_j.  The system under test receives
histories of selection changes (every public way), coupling scalings, evaluations and fit-fraction
computations with seeded batch sizes; after every step its output must equal the reference for the
REFERENCE MODEL's current (selection, couplings).
"""
import cmath
import copy
import json
import math

from sim import cards
from sim.prng import Stream

SELECT = ["set_used_res", "set_used_res_particles", "set_used_res_idx", "set_used_res_only", "set_used_chains", "add_used_chains", "reset", "temp_used_res"]
OBSERVE = ["get_amp3", "density", "partial_weight", "partial_weight_interference"]
FF = ["ff_old", "ff_new", "ff_integral_twice", "ff_append_grouped", "config_ff", "ff_two_objects"]

RULE = (
    "sessions are generated from the seed: card (3-body single-resonance chains, J=1 parent with aligned topologies, half-integer spins, "
    "4-body cascade with a resonance shared by two chains), events (+ optional per-event weights as NumPy array or tensor), then 4..12 operations: "
    "selection changes through every public entry, complex scalings of one chain's total coupling, evaluations, fit fractions old/new with batch "
    "sizes 1 / non-dividing / > N, accumulate-then-regroup. Non-trivial = >= 2 selection or coupling changes AND >= 1 comparison against the "
    "reference; distinct = distinct event-log digests."
)


def plan(tier, seed):
    n = 150 if tier == "quick" else 6000
    jobs = [{"mode": "seed", "seed": seed * 1000003 + i} for i in range(n)]
    return {
        "jobs": jobs,
        "timeout": 200,
        "budget_s": 90 if tier == "quick" else 2400,
        "level": "exploration",
        "rule": RULE,
        "min_executed": 40,
        "shrink_s": 90,
        "real_vs_stub": {
            "real": "tf_pwa amplitude kernels, DecayGroup selection state, AmplitudeModel, fitfractions (cal_fitfractions, FitFractions), applications.fit_fractions, ConfigLoader.cal_fitfractions",
            "simulated": "operation history (selection / coupling / batching schedule), events and weights from the rng seam, hash seed",
            "stub": "none; the reference model is NumPy arithmetic on per-chain tensors extracted once from a separate instance of the library (a wrong kernel is invisible here: C01/C04/C12 territory)",
        },
        "assumptions": [
            "per-chain tensors come from the library's own kernels on a separate reference instance with unit total couplings",
            "fit fractions are compared while all chains are selected (the two implementations define the denominator differently under a restricted selection)",
        ],
    }


def generate(job):
    rs = Stream(job["seed"], "C03")
    rm, ro = rs.child("model"), rs.child("ops")
    kind = rm.weighted([("S3", 4), ("V3", 2), ("H3", 1), ("C4", 3), ("C4s", 1), ("API", 3)])
    card = cards.make_card(rm, kind) if kind != "API" else {"_kind": "API", "api": cards.api_spec(rm)}
    spec = {
        "card": card,
        "n": rm.choice([7, 11, 16]),
        "data_seed": rm.randrange(1 << 30),
        "param_seed": rm.randrange(1 << 30),
        "weights": rm.choice(["none", "numpy", "tensor", "numpy"]),
        "ops": [],
    }
    n = ro.randint(4, 12)
    for _ in range(n):
        t = ro.weighted([("select", 4), ("scale", 3), ("observe", 4), ("ff", 3), ("faulted", 1.5)])
        if t == "faulted":
            # an evaluation / fit-fraction computation that is interrupted by an exception at a seeded line; the
            # history then continues and must keep matching the reference (nothing may be left behind)
            inner = {"k": ro.choice(OBSERVE + FF), "batch": ro.choice(["1", "nd", "big"]), "res_sub": False, "split": 2}
            spec["ops"].append({"k": "faulted", "inner": inner, "pos": ro.choice([30, 300, 1500, 5000, 20000])})
            continue
        if t == "select":
            k = ro.choice(SELECT)
            op = {"k": k, "idx": [ro.randrange(100) for _ in range(ro.randint(1, 2))]}
            if k == "temp_used_res":
                op["body"] = [{"k": ro.choice(OBSERVE)} for _ in range(ro.randint(1, 2))]
            spec["ops"].append(op)
        elif t == "scale":
            spec["ops"].append({"k": "scale", "chain": ro.randrange(100), "r": round(ro.uniform(0.3, 2.5), 4), "phi": round(ro.uniform(-3.1, 3.1), 4)})
        elif t == "observe":
            spec["ops"].append({"k": ro.choice(OBSERVE)})
        else:
            spec["ops"].append({"k": ro.choice(FF), "batch": ro.choice(["1", "nd", "big", "nd"]), "res_sub": ro.chance(0.25), "split": ro.randint(1, 5)})
    return spec


class Failure(Exception):
    pass


class Session:
    def __init__(self, spec, log):
        import numpy as np
        import tensorflow as tf

        self.np, self.tf, self.spec, self.log = np, tf, spec, log
        self.is_api = spec["card"].get("_kind") == "API"
        self.config = cards.ApiModel(spec["card"]["api"]) if self.is_api else cards.build(spec["card"])
        self.amp = self.config.get_amplitude()
        self.dg = self.amp.decay_group
        ps = Stream(spec["param_seed"], "params")
        cards.randomize_params(self.amp, ps, 0.7)
        self.D = self.config.phsp(spec["n"], spec["data_seed"]) if self.is_api else cards.seeded_phsp(self.config, spec["n"], spec["data_seed"])
        n = spec["n"]
        g = np.random.Generator(np.random.PCG64(spec["data_seed"] + 7))
        self.w = np.ones(n)
        if spec["weights"] != "none":
            self.w = 0.2 + 2.0 * g.random(n)
            self.D["weight"] = self.w.copy() if spec["weights"] == "numpy" else tf.constant(self.w)
        # ---- reference instance: same card, same parameters, unit total couplings
        ref = cards.ApiModel(spec["card"]["api"]) if self.is_api else cards.build(spec["card"])
        ramp = ref.get_amplitude()
        p = {k: float(v) for k, v in self.amp.get_params().items()}
        ramp.set_params(p)
        self.nchains = len(list(self.dg.chains))
        self.total_names = []
        for k in range(self.nchains):
            names = [str(x) for x in self.dg.chains[k].total.all_name_list] if hasattr(self.dg.chains[k].total, "all_name_list") else []
            self.total_names.append(names)
        unit = {}
        for names in self.total_names:
            for nme in names:
                unit[nme] = 1.0 if nme.endswith("r") else 0.0
        ramp.set_params(unit)
        rD = ref.phsp(spec["n"], spec["data_seed"]) if self.is_api else cards.seeded_phsp(ref, spec["n"], spec["data_seed"])
        self.A = []
        rdg = ramp.decay_group
        for k in range(self.nchains):
            rdg.set_used_chains([k])
            self.A.append(np.array(rdg.get_amp3(rD)))
        rdg.set_used_chains(list(range(self.nchains)))
        self.chain_res = [[str(p) for p in c] for c in self.dg.chains_particle()]
        self.resnames = [str(r) for r in self.dg.resonances]
        # reference state
        self.S = list(range(self.nchains))
        self.c = [self.coupling(k) for k in range(self.nchains)]
        self.changes = 0
        self.compared = 0

    def coupling(self, k):
        p = self.amp.get_params()
        names = self.total_names[k]
        r, i = float(p[names[0]]), float(p[names[1]])
        nm = names[0][:-1]
        if self.amp.vm.complex_vars.get(nm, True):
            return cmath.rect(r, i)
        return complex(r, i)

    # ---- reference
    def ref_amp(self, S=None):
        S = self.S if S is None else S
        out = 0
        for k in S:
            out = out + self.c[k] * self.A[k]
        if not len(S):
            return self.np.zeros_like(self.A[0])
        return out

    def ref_density(self, S=None):
        a = self.ref_amp(S)
        return self.np.sum(self.np.abs(a) ** 2, axis=tuple(range(1, a.ndim)))

    def chains_of(self, resnames):
        return [k for k in range(self.nchains) if any(r in self.chain_res[k] for r in resnames)]

    def close(self, got, want, what, opk, rtol=1e-9):
        np = self.np
        got = np.array(got)
        want = np.array(want)
        self.compared += 1
        scale = float(np.max(np.abs(want))) if want.size else 1.0
        if got.shape != want.shape or not np.allclose(got, want, rtol=rtol, atol=1e-12 * max(scale, 1e-300)):
            err = float(np.max(np.abs(got - want))) / max(scale, 1e-300) if got.shape == want.shape else float("inf")
            self.log.fail(what, "%s|%s" % (opk, what), "%s: library result differs from the superposition of the per-chain amplitudes for selection %s (max deviation / scale = %.3g)" % (opk, self.S, err), step=self.step)
            raise Failure()

    step = -1

    def res_args(self, idx):
        return [self.resnames[i % len(self.resnames)] for i in idx]

    def run(self, op, inner=False):
        np, tf = self.np, self.tf
        k = op["k"]
        amp, dg, D = self.amp, self.dg, self.D
        self.log.count("op." + k)
        if k in SELECT:
            self.changes += 1
            if k == "set_used_res":
                names = self.res_args(op["idx"])
                amp.set_used_res(names)
                self.S = self.chains_of(names)
            elif k == "set_used_res_particles":
                names = self.res_args(op["idx"])
                parts = [p for p in dg.resonances if str(p) in names]
                amp.set_used_res(parts)
                self.S = self.chains_of(names)
            elif k == "set_used_res_idx":
                idx = sorted(set(i % self.nchains for i in op["idx"]))
                amp.set_used_res(idx)
                self.S = list(idx)
            elif k == "set_used_res_only":
                names = self.res_args(op["idx"])
                dg.set_used_res(names, only=True)
                self.S = [c for c in range(self.nchains) if all(r in names for r in self.chain_res[c])]
            elif k == "set_used_chains":
                idx = sorted(set(i % self.nchains for i in op["idx"]))
                form = sum(op["idx"]) % 4
                if form == 1:
                    amp.set_used_chains(tuple(idx))
                    self.S = list(idx)
                elif form == 2:
                    # a lazy iterable whose predicate reads the CURRENT selection while it is consumed
                    cur = list(self.S)
                    amp.set_used_chains(filter(lambda kk: kk in dg.chains_idx, idx))
                    self.S = [i for i in idx if i in cur]
                elif form == 3:
                    # an iterable that fails half-way: the call raises and must leave the selection as it was
                    def bad():
                        yield idx[0]
                        raise ValueError("bad chain index source")

                    try:
                        amp.set_used_chains(bad())
                        self.log.count("probe.failing_iterable_accepted")
                        self.S = [idx[0]]
                    except ValueError:
                        self.log.count("fault.selection_argument_raised")
                else:
                    # the caller keeps its list: the selection is a copy - later library calls do not edit the
                    # caller's list, later edits of the list do not change the selection
                    mine = list(idx)
                    amp.set_used_chains(mine)
                    self.S = list(idx)
                    self.kept = (mine, list(idx))
                    if sum(op["idx"]) % 8 == 4:
                        mine.reverse()
                        mine.append((idx[0] + 1) % self.nchains)
                        self.kept = None
                        self.log.count("probe.caller_edited_its_list_after_selecting")
            elif k == "add_used_chains":
                idx = sorted(set(i % self.nchains for i in op["idx"]))
                dg.add_used_chains(idx)
                self.S = self.S + [i for i in idx if i not in self.S]
                kept = getattr(self, "kept", None)
                if kept is not None and kept[0] != kept[1]:
                    self.log.fail("selection", "add_used_chains|caller-list-edited", "add_used_chains changed the list object the caller had passed to set_used_chains earlier: %s -> %s" % (kept[1], kept[0]), step=self.step)
                    raise Failure()
            elif k == "reset":
                amp.set_used_chains(list(range(self.nchains)))
                self.S = list(range(self.nchains))
            elif k == "temp_used_res":
                names = self.res_args(op["idx"])
                old = list(self.S)
                with amp.temp_used_res(names):
                    self.S = self.chains_of(names)
                    for b in op.get("body", []):
                        self.run(b, inner=True)
                self.S = old
            got = sorted(set(int(i) for i in dg.chains_idx))
            if not self.S and not got and not inner:
                # an empty selection has no amplitude to compare: continue from the full selection
                amp.set_used_chains(list(range(self.nchains)))
                self.S = list(range(self.nchains))
                got = sorted(set(int(i) for i in dg.chains_idx))
                self.log.count("probe.empty_selection_reset")
            if got != sorted(set(self.S)):
                self.log.fail("selection", "%s|selection" % k, "%s(%s): active chains are %s, the selected resonances belong to chains %s" % (k, op.get("idx"), got, sorted(set(self.S))), step=self.step)
                raise Failure()
            self.log.state(sorted(self.S), [round(abs(c), 6) for c in self.c])
        elif k == "scale":
            ch = op["chain"] % self.nchains
            names = self.total_names[ch]
            p = self.amp.get_params()
            if names[0] not in amp.vm.trainable_vars and names[1] not in amp.vm.trainable_vars:
                # the fixed reference chain: scaling it is an explicit assignment and equally legal
                pass
            r, phi = float(p[names[0]]), float(p[names[1]])
            nm = names[0][:-1]
            if amp.vm.complex_vars.get(nm, True):
                amp.set_params({names[0]: r * op["r"], names[1]: phi + op["phi"]})
            else:
                z = complex(r, phi) * cmath.rect(op["r"], op["phi"])
                amp.set_params({names[0]: z.real, names[1]: z.imag})
            self.c[ch] = self.c[ch] * cmath.rect(op["r"], op["phi"])
            self.changes += 1
            # chains sharing the same total variable object (none in these cards) would move together
        elif k in OBSERVE and not self.S:
            return
        elif k == "get_amp3":
            self.close(np.array(dg.get_amp3(D)), self.ref_amp(), "partial-sum-amplitude", k)
        elif k == "density":
            want = self.ref_density()
            self.close(np.array(amp(D)), want, "density", "model(data)")
            self.close(np.array(dg.sum_amp(D)), want, "density", "sum_amp")
        elif k == "partial_weight":
            ws = amp.partial_weight(D)
            if len(ws) != self.nchains:
                self.log.fail("partial-weight", "partial_weight|count", "partial_weight returned %d weights for %d chains" % (len(ws), self.nchains), step=self.step)
                raise Failure()
            for i, w in enumerate(ws):
                self.close(np.array(w), self.ref_density([i]), "single-chain-weight", "partial_weight")
        elif k == "partial_weight_interference":
            ws = amp.partial_weight_interference(D)
            for (i, j), w in ws.items():
                self.close(np.array(w), self.ref_density([i, j]), "pair-weight", "partial_weight_interference")
        elif k == "faulted":
            from sim.seams import InjectedFault, InjectedInterrupt, LineTracer
            import sys

            tr = LineTracer(fire_at=op["pos"], exc_type=InjectedInterrupt if op["pos"] % 7 == 0 else InjectedFault)
            try:
                try:
                    with tr:
                        self.run(op["inner"])
                finally:
                    sys.settrace(None)
            except (InjectedFault, InjectedInterrupt):
                self.log.count("fault.operation_interrupted_at_line")
            self.changes += 1
            # whatever was interrupted: the selection and the couplings are those of the reference model
            got = sorted(set(int(i) for i in dg.chains_idx))
            if got != sorted(set(self.S)):
                self.log.fail("selection", "after-interrupted-%s|selection" % op["inner"]["k"], "after %s was interrupted by an exception the active chains are %s instead of %s" % (op["inner"]["k"], got, sorted(set(self.S))), step=self.step)
                raise Failure()
            if self.S:
                self.close(np.array(amp(D)), self.ref_density(), "density", "model(data) after an interrupted %s" % op["inner"]["k"])
        elif k in FF:
            if inner or sorted(self.S) != list(range(self.nchains)):
                return
            if self.is_api and k == "config_ff":
                return
            self.do_ff(op)
        else:
            raise ValueError(k)

    def do_ff(self, op):
        np = self.np
        from tf_pwa.applications import fit_fractions
        from tf_pwa.fitfractions import FitFractions

        k = op["k"]
        n = self.spec["n"]
        batch = {"1": 1, "nd": max(2, n // 2 - 1) if n % max(2, n // 2 - 1) else max(2, n // 2), "big": n + 5}[op.get("batch", "nd")]
        res = list(self.resnames)
        if op.get("res_sub") and len(res) > 2:
            res = res[:-1]
        w = self.w
        # cal_fitfractions (old, ConfigLoader) normalises to the chains of the requested resonances; the
        # FitFractions class (new) normalises to the current selection (all chains here)
        denom = self.chains_of(res) if k in ("ff_old", "config_ff") else list(self.S)
        dens_all = self.ref_density(denom)
        I = float(np.sum(w * dens_all))
        ref = {}
        for i, ri in enumerate(res):
            ref[ri] = float(np.sum(w * self.ref_density(self.chains_of([ri])))) / I
        for i, ri in enumerate(res):
            for j in range(i):
                rj = res[j]
                ref[(ri, rj)] = float(np.sum(w * self.ref_density(self.chains_of([ri, rj])))) / I - ref[ri] - ref[rj]

        def norm(d):
            out = {}
            for kk, v in d.items():
                if kk == "sum_diag":
                    continue
                if isinstance(kk, tuple):
                    out[tuple(str(x) for x in kk)] = float(v)
                elif isinstance(kk, str) and "x" in kk and kk not in res and all(p in res for p in kk.split("x")):
                    a, b = kk.split("x")
                    out[(a, b)] = float(v)
                else:
                    out[str(kk)] = float(v)
            return out

        def compare(got, what, opk):
            got = norm(got)
            self.compared += 1
            for key, want in ref.items():
                g = got.get(key, got.get((key[1], key[0])) if isinstance(key, tuple) else None)
                if g is None:
                    self.log.fail(what, "%s|missing-entry" % opk, "%s: no fit fraction for %s" % (opk, key), step=self.step)
                    raise Failure()
                if abs(g - want) > 1e-9 * max(1.0, abs(want)):
                    self.log.fail(what, "%s|%s" % (opk, what), "%s(batch=%d, weights=%s): fit fraction of %s is %.12g, the weighted sums of the per-chain amplitudes give %.12g" % (opk, batch, self.spec["weights"], key, g, want), step=self.step)
                    raise Failure()
            return got

        if k == "ff_old":
            frac, _ = fit_fractions(self.amp, self.D, params={}, batch=batch, res=res, method="old")
            got = compare(frac, "fit-fraction", "fit_fractions(old)")
            frac2, _ = fit_fractions(self.amp, self.D, params={}, batch=self.spec["n"] + 1, res=res, method="old")
            g2 = norm(frac2)
            for key in got:
                if key in g2 and abs(got[key] - g2[key]) > 1e-10 * max(1.0, abs(g2[key])):
                    self.log.fail("batch-independence", "fit_fractions(old)|batch-independence", "fit fraction of %s depends on the batch size: %.12g (batch %d) vs %.12g (one batch)" % (key, got[key], batch, g2[key]), step=self.step)
                    raise Failure()
        elif k == "ff_new":
            r = fit_fractions(self.amp, self.D, params={}, batch=batch, res=res, method="new")
            frac, _ = r.get_frac_grad(sum_diag=False)
            compare(frac, "fit-fraction", "fit_fractions(new)")
        elif k == "ff_integral_twice":
            ff = FitFractions(self.amp, res)
            ff.integral(self.D, batch=batch)
            f1, _ = ff.get_frac_grad(sum_diag=False)
            ff.integral(self.D, batch=batch)
            f2, _ = ff.get_frac_grad(sum_diag=False)
            compare(f1, "fit-fraction", "FitFractions.integral")
            compare(f2, "accumulators-reset", "FitFractions.integral(second call)")
        elif k == "ff_two_objects":
            # two FitFractions objects alive at once (one per sample / per resonance list): each keeps ITS integrals
            from tf_pwa.data import data_split

            ff1 = FitFractions(self.amp, res)
            ff1.integral(self.D, batch=batch)
            first = next(iter(data_split(self.D, max(1, n // 2))))
            ff2 = FitFractions(self.amp, res[:-1] if len(res) > 1 else res)
            ff2.integral(first, batch=batch)
            f1, _ = ff1.get_frac_grad(sum_diag=False)
            compare(f1, "fit-fraction", "FitFractions(first of two objects)")
            self.log.count("probe.two_fitfractions_objects_alive")
        elif k == "ff_append_grouped":
            from tf_pwa.data import data_split

            ff = FitFractions(self.amp, res)
            parts = list(data_split(self.D, max(1, self.spec["n"] // max(1, op.get("split", 2)))))
            for part in parts:
                ff.append_int(part)
            f1, _ = ff.get_frac_grad(sum_diag=False)
            compare(f1, "grouping-independence", "FitFractions.append_int")
        elif k == "config_ff":
            frac, _ = self.config.cal_fitfractions(params={}, mcdata=self.D, batch=batch, res=sorted(res))
            compare(frac, "fit-fraction", "ConfigLoader.cal_fitfractions")
        # sum rule where every chain holds exactly one resonance and every resonance sits in one chain
        one_to_one = all(len(c) == 1 for c in self.chain_res) and len(set(c[0] for c in self.chain_res)) == self.nchains and len(res) == len(self.resnames)
        if one_to_one:
            tot = sum(ref.values())
            if abs(tot - 1.0) > 1e-9:
                self.log.fail("sum-rule", "reference|sum-rule", "reference sum rule violated (%r): harness inconsistency" % tot, step=self.step)
                raise Failure()
            self.log.count("probe.sum_rule_card")


def execute(spec):
    from sim.env import Log

    log = Log(seed=spec.get("data_seed"), prop="C03")
    ses = Session(spec, log)
    try:
        for i, op in enumerate(spec["ops"]):
            ses.step = i
            try:
                ses.run(op)
            except Failure:
                raise
            except Exception as e:
                import traceback

                tb = traceback.extract_tb(e.__traceback__)
                if "/verif/" in tb[-1].filename:
                    raise
                log.fail("raised", "%s|raised|%s" % (op["k"], type(e).__name__), "%s raised %s: %s" % (op["k"], type(e).__name__, str(e)[:300]), step=i)
                raise Failure()
    except Failure:
        pass
    res = log.result(spec=spec, nontrivial=ses.changes >= 2 and ses.compared >= 1)
    res["opkinds"] = {k[3:]: v for k, v in log.counters.items() if k.startswith("op.")}
    return res


def run(job):
    spec = job["spec"] if job.get("mode") == "spec" else generate(job)
    return execute(spec)


def shrink_candidates(spec):
    for i, op in enumerate(spec.get("ops", [])):
        if op.get("body"):
            for j in range(len(op["body"])):
                s = copy.deepcopy(spec)
                del s["ops"][i]["body"][j]
                yield s
    if spec.get("weights") != "none":
        s = copy.deepcopy(spec)
        s["weights"] = "none"
        yield s
    if spec.get("n", 0) > 7:
        s = copy.deepcopy(spec)
        s["n"] = 7
        yield s

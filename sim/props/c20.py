"""C20 — samplers, histograms and adaptive bins reproduce their targets.

Core: the adaptive acceptance-rejection loop `multi_sampling` (running bound, retro-active thinning,
refill until N) is driven with harness-written `phsp`/`amp` stubs that emit serial-numbered proposals
with scripted weights, while every uniform comes from the rng seam.  The two random stages are told
apart by order (the draw that follows an `amp` call is that batch's acceptance draw, any other draw
is a thinning draw) and are probed stage-separated: with the other stage pinned to 'always pass' the
set of survivors must be explained by ONE bound per batch (inclusion proportional to weight, bound >=
every weight of the batch) and by ONE weight-independent threshold per thinning.
End-to-end: ConfigLoader.generate_toy / generate_toy_p (real amplitude) for exact counts and physical
events across consecutive calls.  Inverse-transform samplers are fed grids of uniforms through the
seam.  Adaptive bins and weighted histograms have no schedule or fault in them: they run as
conservation monitors on seeded samples and are reported as such.
"""
import copy
import math

from sim.prng import Stream

RULE = (
    "sessions are generated from the seed: kind (multi_sampling with stubs in modes iid / acceptance-stage / thinning-stage; "
    "interp_sample_f; inverse-transform samplers; end-to-end toy generation; bin/histogram conservation monitors), sizes, "
    "weight scripts with planted late maxima, preset bounds. Non-trivial = (multi_sampling/interp: >= 2 batches or a bound growth "
    "occurred) or (toy: two consecutive calls) or (others: >= 2 distinct grids/layouts); distinct = distinct event-log digests."
)


def plan(tier, seed):
    n = 480 if tier == "quick" else 20000
    jobs = [{"mode": "seed", "seed": seed * 1000003 + i} for i in range(n)]
    return {
        "jobs": jobs,
        "timeout": 150,
        "budget_s": 80 if tier == "quick" else 2400,
        "level": "exploration",
        "rule": RULE,
        "min_executed": 100,
        "shrink_s": 40,
        "real_vs_stub": {
            "real": "tf_pwa.generator (multi_sampling, single_sampling2, GenTest, LinearInterp, interp_sample_f, BWGenerator, InterpND), tf_pwa.data helpers, ConfigLoader.generate_toy/_p with the real amplitude (also on generators built with nodes=), applications.gen_data (MC / background / toy files on the scratch directory), AdaptiveBound, Hist1D",
            "simulated": "all uniform draws (tf.random.uniform, np.random.random) through the rng seam: seeded, pinned per stage, or scripted grids",
            "stub": "phsp/amp callables handed to multi_sampling in the core sub-check (serial-numbered proposals with scripted weights); f for interp_sample_f",
        },
        "assumptions": [
            "the draw that follows an amp() call is that batch's acceptance draw; every other draw inside multi_sampling is a thinning draw",
            "'follows the density' is decided as an identity: per batch one bound B >= max weight explains all accept/reject decisions (inclusion probability proportional to weight) and thinning is weight-independent; no statistical test in this tier",
            "adaptive bins / histograms are pure functions: checked as conservation monitors only",
        ],
    }


# ------------------------------------------------------------------------------- generation


def generate(job):
    rs = Stream(job["seed"], "C20")
    kind = rs.weighted([("ms", 10), ("interp_ar", 2), ("inv", 3), ("toy", 1), ("bins", 2), ("hist", 1), ("gen_data", 0.7)])
    spec = {"kind": kind, "rng_seed": rs.randrange(1 << 30)}
    if kind == "ms":
        spec["mode"] = rs.weighted([("iid", 4), ("accept", 3), ("thin", 3)])
        spec["N"] = rs.choice([1, 2, 5, 12, 30, 60])
        spec["max_N"] = rs.choice([3, 5, 8, 20, 50])
        spec["force"] = rs.chance(0.85)
        spec["preset"] = rs.weighted([("none", 5), ("small", 2), ("large", 2)])
        spec["preset_type"] = rs.choice(["tensor", "float", "numpy"])  # what a user assigns to max_amplitude / max_weight
        spec["importance"] = rs.chance(0.2)
        # weight script: base weights in (0, wscale]; planted maxima at late serial numbers
        spec["wseed"] = rs.randrange(1 << 30)
        spec["wscale"] = rs.choice([1.0, 0.3, 5.0])
        spec["wshape"] = rs.choice(["uniform", "peaky", "flat"])
        nplant = rs.weighted([(0, 2), (1, 4), (2, 3), (4, 1)])
        spec["plants"] = sorted(set(rs.randint(0, 6 * max(spec["N"], spec["max_N"])) for _ in range(nplant)))
        spec["plant_factor"] = rs.choice([1.5, 3.0, 10.0])
        if spec["mode"] == "thin":
            # with every proposal accepted the run ends after ~N proposals: exactly one late maximum inside
            # that window gives exactly one (attributable) thinning over many alive events
            spec["max_N"] = rs.choice([3, 5, 8])
            spec["N"] = rs.choice([12, 30, 60])
            spec["plants"] = [rs.randint(spec["max_N"], spec["N"] - 2)]
            spec["plant_factor"] = rs.choice([1.5, 3.0])
            spec["preset"] = "none"
            spec["wshape"] = rs.choice(["uniform", "flat"])
    elif kind == "interp_ar":
        spec["N"] = rs.choice([1, 5, 40, 200])
        spec["grid"] = rs.randint(3, 12)
        spec["peak"] = round(rs.uniform(0.2, 2.8), 3)
        spec["width"] = rs.choice([0.05, 0.2, 1.0])
    elif kind == "inv":
        spec["which"] = rs.choice(["linear", "linear", "bw", "nd"])
        spec["grid"] = rs.randint(2, 9)
        spec["gseed"] = rs.randrange(1 << 30)
        spec["zero_nodes"] = rs.chance(0.3)
        spec["ndim"] = rs.choice([1, 2, 2, 3])
    elif kind == "toy":
        spec["N"] = rs.choice([1, 3, 10, 25])
        spec["max_N"] = rs.choice([20, 50, 200])
        spec["which"] = rs.choice(["generate_toy", "generate_toy_p", "generate_toy_p"])
        spec["cseed"] = rs.randrange(1 << 30)
        spec["calls"] = rs.choice([1, 2, 2, 3])
        spec["interrupt"] = rs.choice([0, 0, 500, 5000, 30000])
        if rs.chance(0.4):
            # proposals from a generator built with the nodes= keyword (importance-sampling workflow)
            pool = ["B", "C", "D"]
            spec["nodes"] = [[pool.pop(rs.randrange(len(pool))) for _ in range(rs.randint(1, 2))]]
    elif kind == "gen_data":
        spec["cseed"] = rs.randrange(1 << 30)
        spec["n_mc"] = rs.choice([8, 30, 120])
        spec["n_bgfile"] = rs.choice([5, 20])
        spec["Ndata"] = rs.choice([1, 3, 10, 40])
        spec["Nbg"] = rs.choice([0, 0, 3, 7])
        spec["wbg"] = rs.choice([0.0, 0.5, 1.0]) if spec["Nbg"] else 0
        spec["Ndata"] = max(spec["Ndata"], int(round(spec["wbg"] * spec["Nbg"])) + 1)  # at least one signal event
        spec["poisson"] = rs.chance(0.2)
        if spec["poisson"]:
            spec["Ndata"] = 40  # a Poisson count of zero signal events is not a toy (gen_data has nothing to concatenate)
        spec["particles"] = rs.choice([None, None, "sorted", "reversed"])
        spec["genfile"] = rs.chance(0.7)
    elif kind == "bins":
        spec["n"] = rs.choice([64, 100, 257, 1000, 4096])
        spec["dim"] = rs.choice([1, 2, 2, 3])
        spec["layout"] = rs.choice(["int", "flat", "nested2", "nested3", "mixed"])
        spec["dseed"] = rs.randrange(1 << 30)
    else:
        spec["n"] = rs.choice([1, 10, 200, 3000])
        spec["bins"] = rs.choice([1, 5, 20])
        spec["dseed"] = rs.randrange(1 << 30)
        spec["weighted"] = rs.chance(0.7)
        spec["signed"] = rs.chance(0.4)  # sideband-subtraction style +1/-1 weights that cancel inside bins
    return spec


# ------------------------------------------------------------------------------- multi_sampling core


def make_weights(np, spec):
    """lazy, unbounded weight script: weight of proposal `serial` is a pure function of (wseed, serial)"""
    plants = {int(s): k for k, s in enumerate(spec["plants"])}
    wscale = spec["wscale"]

    def mix(z):
        z = (z + np.uint64(0x9E3779B97F4A7C15)) & np.uint64(0xFFFFFFFFFFFFFFFF)
        z = (z ^ (z >> np.uint64(30))) * np.uint64(0xBF58476D1CE4E5B9)
        z = (z ^ (z >> np.uint64(27))) * np.uint64(0x94D049BB133111EB)
        return z ^ (z >> np.uint64(31))

    def W(serials, salt=0):
        ser = np.asarray(serials, dtype=np.uint64)
        with np.errstate(over="ignore"):
            z = mix(ser * np.uint64(2654435761) + np.uint64(spec["wseed"] + salt))
        u = (z >> np.uint64(11)).astype(np.float64) / float(1 << 53)
        if salt:
            return 0.5 + u
        if spec["wshape"] == "uniform":
            w = u
        elif spec["wshape"] == "peaky":
            w = u**3
        else:
            w = 0.5 + 0.01 * u
        w = wscale * (w * 0.999 + 0.001)
        for i, s in enumerate(np.asarray(serials).tolist()):
            if s in plants:
                w[i] = wscale * min(spec["plant_factor"] * (1 + plants[s]), 12.0)
        return w

    return W


class StubBudget(Exception):
    pass


def run_ms(spec, log):
    import numpy as np
    import tensorflow as tf

    from sim.seams import rng_seam
    from tf_pwa.generator.generator import multi_sampling

    N, max_N = spec["N"], spec["max_N"]
    Wf = make_weights(np, spec)
    st = {"next": 0, "batches": [], "await": None, "draws": [], "timeline": []}

    def eff(serials):
        w = Wf(serials)
        if spec["importance"]:
            w = w / Wf(serials, salt=1)
        return w

    def phsp(n):
        n = int(n)
        s0 = st["next"]
        if s0 + n > 300000 or len(st["batches"]) > 3000:
            raise StubBudget()
        st["next"] = s0 + n
        st["batches"].append({"start": s0, "n": n, "rnd": None})
        return {"serial": tf.constant(np.arange(s0, s0 + n, dtype=np.int64)), "x": tf.constant(np.arange(s0, s0 + n, dtype=np.float64))}

    def amp(data):
        ser = np.array(data["serial"])
        st["await"] = st["batches"][-1]
        return tf.constant(Wf(ser))

    imp_f = None
    if spec["importance"]:

        def imp_f(data):
            return tf.constant(Wf(np.array(data["serial"]), salt=1))

    mode = spec["mode"]

    def script(role, shape, idx, u):
        b = st["await"]
        if b is not None and shape == (b["n"],):
            st["await"] = None
            out = np.zeros(shape) if mode == "thin" else np.array(u)
            b["rnd"] = out
            st["timeline"].append(("batch", b))
            return out
        # a thinning draw
        out = np.zeros(shape) if mode == "accept" else np.array(u)
        st["draws"].append(out)
        st["timeline"].append(("thin", out))
        return out

    preset = None
    first = eff(np.arange(0, max_N))
    if spec["preset"] == "small":
        preset = tf.constant(float(np.min(first)) * 0.5, dtype=tf.float64)
    elif spec["preset"] == "large":
        preset = tf.constant(spec["wscale"] * 40.0, dtype=tf.float64)
    if preset is not None and spec.get("preset_type", "tensor") != "tensor":
        preset = float(preset.numpy()) if spec["preset_type"] == "float" else np.float64(preset.numpy())
    with rng_seam(spec["rng_seed"], script=script):
        ret, status = multi_sampling(phsp, amp, N, max_N=max_N, force=spec["force"], max_weight=preset, importance_f=imp_f, display=False)
    out_ser = np.array(ret["serial"])
    return out_ser, st, eff, preset


def check_ms(spec, log, out_ser, st, W, preset):
    import numpy as np

    N = spec["N"]
    mode = spec["mode"]
    key = "multi_sampling|%s" % mode
    nb = len(st["batches"])
    log.ev("ms", N=N, batches=nb, thinnings=len(st["draws"]), returned=int(out_ser.shape[0]))
    if nb >= 2:
        log.count("probe.refill_batches", nb - 1)
    if st["draws"]:
        log.count("probe.bound_grew_after_accepted_events", len(st["draws"]))
    if mode != "iid":
        log.count("fault.stage_pinned_" + mode)
    # H1 exact count
    if spec["force"] and out_ser.shape[0] != N:
        log.fail("exact-count", key + "|exact-count", "multi_sampling(force=True) returned %d events, requested %d (batches %d, thinnings %d, preset=%s)" % (out_ser.shape[0], N, nb, len(st["draws"]), spec["preset"]))
        return
    if not spec["force"] and out_ser.shape[0] < N:
        log.fail("exact-count", key + "|at-least-N", "multi_sampling(force=False) returned %d < %d events" % (out_ser.shape[0], N))
        return
    # H2 exactly-once, order
    if out_ser.size and not np.all(np.diff(out_ser) > 0):
        log.fail("exactly-once", key + "|exactly-once", "returned proposals are not strictly increasing in serial number (duplicate or reordered): %s" % out_ser[:20].tolist())
        return
    if out_ser.size and (out_ser.min() < 0 or out_ser.max() >= st["next"]):
        log.fail("exactly-once", key + "|exactly-once", "returned a proposal that was never generated")
        return
    surv = set(out_ser.tolist())
    # necessary condition in every mode: a survivor passed u*B < w for some B >= max(batch)
    for b in st["batches"]:
        if b["rnd"] is None:
            continue
        ser = np.arange(b["start"], b["start"] + b["n"])
        w = W(ser)
        mx = float(np.max(w))
        for s, wi, ui in zip(ser, w, b["rnd"]):
            if int(s) in surv and not (ui * mx < wi * (1 + 1e-12)):
                log.fail("weight-bound", key + "|weight-bound", "proposal %d (weight %.6g, batch maximum %.6g) was kept although its acceptance uniform %.6g exceeds weight/max: it was accepted against a bound below the batch maximum" % (s, wi, mx, ui))
                return
    last_cut = out_ser.max() if (spec["force"] and out_ser.size) else None
    if mode == "accept":
        # thinning pinned to always-pass: survivors == accepted (up to the final truncation to N)
        for bi, b in enumerate(st["batches"]):
            ser = np.arange(b["start"], b["start"] + b["n"])
            w = W(ser)
            u = b["rnd"]
            if u is None:
                continue
            if last_cut is not None and ser[-1] > last_cut:
                keep = ser <= last_cut  # the tail may have been cut by force=True
                ser, w, u = ser[keep], w[keep], u[keep]
                if ser.size == 0:
                    continue
            acc = np.array([int(s) in surv for s in ser])
            with np.errstate(divide="ignore"):
                ratio = np.where(u > 0, w / np.where(u > 0, u, 1.0), np.inf)  # accepted <=> B < w/u
            lo = max([float(np.max(W(np.arange(b["start"], b["start"] + b["n"]))))] + [float(r) for r, a in zip(ratio, acc) if not a])
            hi = min([np.inf] + [float(r) for r, a in zip(ratio, acc) if a])
            log.count("probe.batch_bound_interval_checked")
            if not (lo < hi * (1 + 1e-12)):
                log.fail("inclusion-proportional-to-weight", key + "|one-bound-per-batch", "batch %d: no single bound B >= max weight explains the accept/reject decisions (need max(%.6g over rejected w/u and batch max) < min over accepted w/u = %.6g): inclusion is not proportional to weight" % (bi, lo, hi))
                return
    if mode == "thin" and len(st["draws"]) > 1:
        # an event missing from the output may have been removed by any of the thinnings: not attributable
        log.count("probe.multiple_thinnings_not_judged")
    if mode == "thin" and len(st["draws"]) == 1:
        # acceptance pinned to always-accept: every proposal (w > 0) enters; each thinning must be ONE
        # threshold on its uniform draw, i.e. independent of the weight.  The timeline tells which
        # events were alive at each thinning (a thinning precedes the append of the current batch).
        alive, pending = [], None
        ti = 0
        for ev in st["timeline"]:
            if ev[0] == "batch":
                if pending is not None:
                    alive += pending
                b = ev[1]
                pending = list(range(b["start"], b["start"] + b["n"]))
            else:
                u = ev[1]
                if u.shape[0] != len(alive):
                    log.count("probe.thinning_not_attributable")
                    return
                pairs = [(ui, (s in surv), s) for ui, s in zip(u, alive) if last_cut is None or s <= last_cut]
                tk = [ui for ui, k, s in pairs if k]
                tr = [ui for ui, k, s in pairs if not k]
                log.count("probe.thinning_threshold_checked")
                if tk and tr and not (max(tk) < min(tr)):
                    log.fail("thinning-weight-independent", key + "|one-threshold-per-thinning", "thinning %d is not a single threshold on the uniform draw (kept u up to %.6g, removed u from %.6g): survival depends on something else than the draw" % (ti, max(tk), min(tr)))
                    return
                # later thinnings act on the survivors of this one; events beyond the final cut cannot be judged
                if last_cut is not None and any(s > last_cut for s in alive):
                    log.count("probe.thinning_partly_beyond_cut")
                    return
                alive = [s for s in alive if s in surv or False]
                # an event removed by a LATER thinning is not in surv either: stop after the first thinning
                # unless it is the last one
                if ti < len(st["draws"]) - 1:
                    log.count("probe.multiple_thinnings_first_only")
                    return
                ti += 1


# ------------------------------------------------------------------------------- other kinds


def run_interp_ar(spec, log):
    import numpy as np

    from sim.seams import rng_seam
    from tf_pwa.generator.linear_interpolation import LinearInterp, interp_sample_f

    pk, wd = spec["peak"], spec["width"]

    def f(x):
        return 1.0 / (wd * wd + (x - pk) ** 2) + 0.05

    x = np.linspace(0.0, 3.0, spec["grid"])
    fi = LinearInterp(x, f(x))
    with rng_seam(spec["rng_seed"]):
        out, _, max_rnd = interp_sample_f(f, fi, spec["N"])
    if out.shape[0] != spec["N"]:
        log.fail("exact-count", "interp_sample_f|exact-count", "interp_sample_f returned %d events, requested %d" % (out.shape[0], spec["N"]))
        return
    if not (np.all(out >= 0.0 - 1e-12) and np.all(out <= 3.0 + 1e-12)):
        log.fail("in-range", "interp_sample_f|in-range", "sample outside the grid range: [%r, %r]" % (float(out.min()), float(out.max())))
        return
    w = f(out) / fi(out)
    if np.any(w > max_rnd * (1 + 1e-12)):
        log.fail("weight-bound", "interp_sample_f|weight-bound", "accepted event with weight %.6g above the final bound %.6g" % (float(w.max()), float(max_rnd)))


def run_inv(spec, log):
    import numpy as np

    from sim.seams import rng_seam

    g = np.random.Generator(np.random.PCG64(spec["gseed"]))
    which = spec["which"]
    if which == "linear":
        from tf_pwa.generator.linear_interpolation import LinearInterp

        n = spec["grid"] + 1
        x = np.cumsum(0.05 + g.random(n))
        y = g.random(n) + 0.01
        if spec["zero_nodes"]:
            y[g.integers(0, n)] = 0.0
            if g.random() < 0.5:
                y[0] = 0.0
        if g.random() < 0.3:
            y[1:3] = y[0]  # a flat segment (k == 0 branch)
        if not np.sum(y > 0) >= 2:
            y[-1] = 0.5
            y[-2] = max(y[-2], 0.25)  # an all-zero grid is not a density
        li = LinearInterp(x, y)
        cum = np.concatenate([[0.0], li.int_step]) / li.int_all
        u = np.concatenate([np.linspace(0, 1, 41)[:-1], [1 - 2.0**-53], cum[1:-1], g.random(50)])
        u = np.clip(u, 0, 1 - 2.0**-53)
        u = np.sort(u)
        xs = li.solve(u)
        if not np.all(np.isfinite(xs)):
            log.fail("inverse-exact", "LinearInterp|finite", "solve returned non-finite values for u in [0,1) (grid y=%s)" % y.round(3).tolist())
            return
        if not (np.all(xs >= x[0] - 1e-9) and np.all(xs <= x[-1] + 1e-9)):
            log.fail("in-range", "LinearInterp|in-range", "solve left the grid range [%r,%r]: [%r,%r]" % (x[0], x[-1], float(xs.min()), float(xs.max())))
            return
        back = li.integral(xs)
        if not np.allclose(back, u * li.int_all, rtol=1e-9, atol=1e-10 * li.int_all):
            i = int(np.argmax(np.abs(back - u * li.int_all)))
            log.fail("inverse-exact", "LinearInterp|inverse-exact", "integral(solve(u)) != u*int_all at u=%r: %r vs %r" % (float(u[i]), float(back[i]), float(u[i] * li.int_all)))
            return
        if np.any(np.diff(xs) < -1e-9):
            log.fail("monotone", "LinearInterp|monotone", "solve(u) is not monotone in u")
            return
        with rng_seam(spec["rng_seed"]) as src:
            gen = li.generate(37)
        chk = np.random.Generator(np.random.PCG64(spec["rng_seed"] & ((1 << 63) - 1))).random(37)
        if gen.shape != (37,) or not np.allclose(gen, li.solve(chk), rtol=0, atol=0):
            log.fail("exact-count", "LinearInterp|generate", "generate(N) is not solve() of N uniform draws")
    elif which == "bw":
        from tf_pwa.generator.breit_wigner import BWGenerator

        m0 = 1.0 + g.random()
        ga = 10 ** g.uniform(-3, 0)
        lo = m0 - g.uniform(0.01, 1.0)
        hi = m0 + g.uniform(0.01, 1.0)
        if g.random() < 0.3:
            lo, hi = m0 + 0.1, m0 + 0.5  # peak outside the window
        bw = BWGenerator(m0, ga, lo, hi)
        u = np.sort(np.concatenate([np.linspace(0, 1, 33)[:-1], [1 - 2.0**-53], g.random(40)]))
        xs = bw.solve(u)
        if not (np.all(xs >= lo - 1e-9) and np.all(xs <= hi + 1e-9)):
            log.fail("in-range", "BWGenerator|in-range", "solve left [m_min,m_max]=[%r,%r]: [%r,%r] (m0=%r gamma=%r)" % (lo, hi, float(xs.min()), float(xs.max()), m0, ga))
            return
        back = bw.integral(xs) - bw.integral(lo)
        if not np.allclose(back, u * bw.int_all, rtol=1e-8, atol=1e-9 * bw.int_all):
            log.fail("inverse-exact", "BWGenerator|inverse-exact", "integral(solve(u))-integral(m_min) != u*int_all (m0=%r gamma=%r window [%r,%r])" % (m0, ga, lo, hi))
            return
        if np.any(np.diff(xs) < -1e-12):
            log.fail("monotone", "BWGenerator|monotone", "solve(u) is not monotone")
    else:
        from tf_pwa.generator.interp_nd import InterpND

        nd = spec["ndim"]
        xs = [np.cumsum(0.1 + g.random(g.integers(2, 5))) for _ in range(nd)]
        z = g.random([a.shape[0] for a in xs]) + (0.0 if spec["zero_nodes"] else 0.05)
        f = InterpND(xs, z)
        with rng_seam(spec["rng_seed"]):
            pts = f.generate(200)
        if pts.shape != (200, nd):
            log.fail("exact-count", "InterpND|exact-count", "generate(200) returned shape %s" % (pts.shape,))
            return
        for j in range(nd):
            if not (np.all(pts[:, j] >= xs[j][0] - 1e-12) and np.all(pts[:, j] <= xs[j][-1] + 1e-12)):
                log.fail("in-range", "InterpND|in-range", "dimension %d left the grid range" % j)
                return
        # the measure behind generate(): scripted draws - the cell-selection uniform sweeps an equidistant grid,
        # every position uniform is 0.04 (sqrt = 0.2), so each returned point names its cell AND the corner whose
        # triangular shape was used (offset 0.2 from the upper / 0.8 = lower node).  The swept fraction per
        # (cell, corner) must be the mass of that corner's term of the multilinear interpolation:
        # z_corner * cell volume / 2^n / integral.
        import itertools

        M = 4000 * 2**nd

        def script(role, shape, idx, u):
            if len(shape) == 2:
                return np.full(shape, 0.04)
            return (np.arange(shape[0]) + 0.5) / shape[0]

        with rng_seam(spec["rng_seed"], script=script):
            pts = f.generate(M)
        mass = {}
        for pt in pts:
            b, p = [], []
            for j in range(nd):
                k = int(np.digitize(pt[j], xs[j][1:-1]))
                t = (pt[j] - xs[j][k]) / (xs[j][k + 1] - xs[j][k])
                b.append(k)
                p.append(1 if abs(t - 0.2) < 1e-6 else (0 if abs(t - 0.8) < 1e-6 else -1))
            mass[(tuple(b), tuple(p))] = mass.get((tuple(b), tuple(p)), 0) + 1.0 / M
        exp, tot = {}, 0.0
        for b in itertools.product(*[range(len(x) - 1) for x in xs]):
            vol = float(np.prod([xs[j][b[j] + 1] - xs[j][b[j]] for j in range(nd)]))
            for p in itertools.product([0, 1], repeat=nd):
                w = float(z[tuple(b[j] + p[j] for j in range(nd))]) * vol / 2**nd
                exp[(b, p)] = w
                tot += w
        if any(-1 in k[1] for k in mass):
            log.fail("inverse-exact", "InterpND|position-transform", "a position uniform of 0.04 must land 0.2 cell widths from a node (inverse of the triangular CDF)")
            return
        worst = max((abs(mass.get(k, 0.0) - v / tot), k) for k, v in exp.items())
        if worst[0] > 4.0 / M * 1.5 + 1e-12:
            log.fail("inverse-exact", "InterpND|cell-corner-measure", "%d-dimensional grid %s: the probability mass generate() gives to cell %s / corner %s is off by %.3g (expected z_corner*volume/2^n / integral)" % (nd, [len(x) for x in xs], worst[1][0], worst[1][1], worst[0]))
            return
        log.count("probe.interp_nd_measure_checked")


def run_toy(spec, log):
    import numpy as np

    from sim import cards
    from sim.seams import rng_seam

    rs = Stream(spec["cseed"], "toycard")
    card = cards.make_card(rs, "S3", n_res=2)
    config = cards.build(card)
    amp = config.get_amplitude()
    fin = card["particle"]["$finals"]
    m0 = card["particle"]["$top"]["A"]["mass"]
    N = spec["N"]
    for call in range(spec["calls"]):
        if call:
            cards.randomize_params(amp, Stream(spec["cseed"], "p", call), 1.5)
        if spec.get("interrupt") and call == 0:
            # a generation that is interrupted by an exception; the next call must be complete and exact again
            from sim.seams import InjectedFault, LineTracer
            import sys

            tr = LineTracer(fire_at=spec["interrupt"], exc_type=InjectedFault)
            try:
                try:
                    with tr:
                        with rng_seam(spec["rng_seed"] + 99):
                            getattr(config, spec["which"])(N, max_N=spec["max_N"])
                finally:
                    sys.settrace(None)
            except InjectedFault:
                log.count("fault.toy_generation_interrupted")
        kw = {}
        if spec.get("nodes"):
            if spec["which"] == "generate_toy":
                kw["gen"] = config.get_phsp_generator(nodes=[list(n) for n in spec["nodes"]]).generate
            else:
                kw["gen_p"] = config.get_phsp_p_generator(nodes=[list(n) for n in spec["nodes"]]).generate
            log.count("probe.toy_from_generator_with_nodes")
        with rng_seam(spec["rng_seed"] + call):
            if spec["which"] == "generate_toy":
                d = config.generate_toy(N, max_N=spec["max_N"], **kw)
                ps = {str(k): np.array(v["p"]) for k, v in d["particle"].items() if str(k) in fin}
            else:
                d = config.generate_toy_p(N, max_N=spec["max_N"], **kw)
                ps = {str(k): np.array(v) for k, v in d.items()}
        log.ev("toy", call=call, shapes={k: list(v.shape) for k, v in ps.items()})
        if sorted(ps) != sorted(fin) or any(p.shape != (N, 4) for p in ps.values()):
            log.fail("exact-count", "%s|exact-count" % spec["which"], "call %d of %s(N=%d) returned %s" % (call, spec["which"], N, {k: v.shape for k, v in ps.items()}))
            return
        for k, p in ps.items():
            mm = p[:, 0] ** 2 - np.sum(p[:, 1:] ** 2, axis=-1)
            if not np.all(np.abs(mm - fin[k]["mass"] ** 2) <= 1e-10 * m0 * m0):
                log.fail("physical", "%s|on-shell" % spec["which"], "toy particle %s off its mass shell" % k)
                return
        tot = sum(ps.values())
        if not (np.max(np.abs(tot[:, 0] - m0)) <= 1e-9 * m0 and np.max(np.abs(tot[:, 1:])) <= 1e-9 * m0):
            log.fail("physical", "%s|conservation" % spec["which"], "toy momenta do not add up to the parent at rest")
            return
    if spec["calls"] > 1:
        log.count("probe.consecutive_toy_calls")


def run_gen_data(spec, log):
    """applications.gen_data: toy data picked from an MC file by acceptance-rejection (+ background rows).
    Simulated: every draw (acceptance thresholds, candidate indices, background indices, Poisson counts, the
    final shuffle) comes from the seam and is recorded; the expected sample is recomputed from the recorded
    draws with a separately evaluated density."""
    import numpy as np

    from sim import cards
    from sim.env import Scratch
    from sim.seams import rng_seam
    from tf_pwa.applications import gen_data

    rs = Stream(spec["cseed"], "gd")
    card = cards.make_card(rs, "S3", n_res=2)
    config = cards.build(card)
    amp = config.get_amplitude()
    cards.randomize_params(amp, Stream(spec["cseed"], "p"), 1.0)
    outs = sorted(amp.decay_group.outs)
    particles = None
    order = outs
    if spec.get("particles") == "sorted":
        particles = list(outs)
    elif spec.get("particles") == "reversed":
        particles = list(outs)[::-1]
        order = particles

    def table(n, seed):
        with rng_seam(seed):
            p = config.generate_phsp_p(n)
        byname = {str(k): np.array(v) for k, v in p.items()}
        return np.stack([byname[str(k)] for k in order], axis=1)  # (event, particle, 4)

    mc = table(spec["n_mc"], spec["rng_seed"] + 1)
    bg = table(spec["n_bgfile"], spec["rng_seed"] + 2)
    with Scratch("c20gd") as d:
        import os

        mcfile, bgfile, genfile = os.path.join(d, "mc.dat"), os.path.join(d, "bg.dat"), os.path.join(d, "toy.dat")
        np.savetxt(mcfile, mc.reshape(-1, 4))
        np.savetxt(bgfile, bg.reshape(-1, 4))
        # reference density of the MC rows (evaluated on the harness' own copy of the momenta)
        ref = np.array(amp(config.data.cal_angle({k: mc[:, i] for i, k in enumerate(order)})))
        draws = []

        def script(role, shape, idx, u):
            draws.append((role, tuple(shape), np.array(u)))
            return None

        with rng_seam(spec["rng_seed"], script=script):
            data = gen_data(amp, spec["Ndata"], mcfile, Nbg=spec["Nbg"], wbg=spec["wbg"], Poisson_fluc=spec["poisson"], bgfile=bgfile, genfile=genfile if spec["genfile"] else None, particles=particles)
        got = np.stack([np.array(data["particle"][k]["p"]) for k in order], axis=1)
        filed = np.loadtxt(genfile).reshape(-1, len(order), 4) if spec["genfile"] else None
    nbg = int(round(spec["wbg"] * spec["Nbg"]))
    nmc = spec["Ndata"] - nbg
    log.ev("gen_data", n=int(got.shape[0]), nmc=nmc, nbg=nbg, draws=len(draws))
    key = "gen_data"
    if not spec["poisson"] and got.shape[0] != spec["Ndata"]:
        log.fail("exact-count", key + "|exact-count", "gen_data(Ndata=%d, Nbg=%d, wbg=%s) returned %d events" % (spec["Ndata"], spec["Nbg"], spec["wbg"], got.shape[0]))
        return
    # every returned event is one complete row of the MC or the background file (no particle of another event)
    def rows(t):
        return {t[i].tobytes(): i for i in range(t.shape[0])}

    mcr, bgr = rows(mc), rows(bg)
    src_idx = []
    for i in range(got.shape[0]):
        b = got[i].tobytes()
        if b in mcr:
            src_idx.append(("mc", mcr[b]))
        elif b in bgr:
            src_idx.append(("bg", bgr[b]))
        else:
            log.fail("physical", key + "|event-not-a-file-row", "returned event %d is not an event of the MC / background file (particles of different events mixed, or momenta altered)" % i)
            return
    if filed is not None and (filed.shape != got.shape or not np.array_equal(filed, got)):
        log.fail("physical", key + "|genfile-differs", "the toy written to genfile differs from the returned toy")
        return
    if spec["poisson"]:
        log.count("probe.gen_data_poisson")
        return
    n_from_bg = sum(1 for s, _ in src_idx if s == "bg")
    if n_from_bg != nbg:
        log.fail("exact-count", key + "|background-count", "%d of the %d events come from the background file, expected round(wbg*Nbg) = %d" % (n_from_bg, got.shape[0], nbg))
        return
    # the accepted MC events are exactly those the recorded draws select under the reference density
    fl = [u for role, shape, u in draws if shape == (mc.shape[0],)]
    exp = []
    mx = float(np.max(ref))
    for j in range(0, len(fl) - 1, 2):
        thr = fl[j] * mx
        cand = np.floor(fl[j + 1] * mc.shape[0]).astype(int)
        exp += [int(c) for c, t in zip(cand, thr) if ref[c] > t]
        if len(exp) >= nmc:
            break
    exp = sorted(exp[:nmc])
    have = sorted(i for s, i in src_idx if s == "mc")
    if len(exp) == nmc and have != exp:
        # tolerate threshold ties at rounding level: compare only if no candidate sits within 1e-9 of its threshold
        close = False
        for j in range(0, len(fl) - 1, 2):
            cand = np.floor(fl[j + 1] * mc.shape[0]).astype(int)
            if np.any(np.abs(ref[cand] - fl[j] * mx) <= 1e-9 * mx):
                close = True
        if not close:
            log.fail("follows-density", key + "|accepted-set", "the MC events in the toy are not the ones the recorded acceptance draws select under the model density (expected rows %s, got %s)" % (exp[:12], have[:12]))
            return
    log.count("probe.gen_data_checked")


def run_bins(spec, log):
    """binning objects are built, used and dropped one after the other (a toy loop / a helper that builds its
    binning locally): each must describe ITS data whatever lived at its address before"""
    import gc

    for rep in range(3):
        sub = dict(spec)
        sub["dseed"] = spec["dseed"] + 1000 * rep
        if rep:
            sub["n"] = [64, 100, 257, 1000, 4096][(spec["dseed"] + rep) % 5]
        run_bins_once(sub, log, rep)
        if log.failures:
            return
        gc.collect()
    log.count("probe.consecutive_binning_objects")


def run_bins_once(spec, log, rep=0):
    import numpy as np

    from tf_pwa.adaptive_bins import AdaptiveBound

    g = np.random.Generator(np.random.PCG64(spec["dseed"]))
    n, dim = spec["n"], spec["dim"]
    data = g.normal(size=(dim, n)) * (1 + np.arange(dim))[:, None]
    lay = spec["layout"]
    if lay == "int" or dim == 1:
        bins = int(g.integers(1, 6))
        ab = AdaptiveBound(data[0], bins)
        used = np.array([data[0]])
        nb, levels = bins, 1
    else:
        if lay == "flat":
            bins = [[int(g.integers(1, 4)) for _ in range(dim)]]
        elif lay == "nested2":
            bins = [[2] * dim] * 2
        elif lay == "nested3":
            bins = [[2] * dim] * 3
        else:
            bins = [[int(g.integers(1, 4)) for _ in range(dim)], [int(g.integers(1, 3)) for _ in range(dim)][::-1]]
        ab = AdaptiveBound(data, bins)
        used = data
        nb = int(np.prod([np.prod(b) for b in bins]))
        levels = sum(1 for b in bins for s in b if s > 1)
    if n < 8 * nb:  # fewer events than a layout can split: outside the property (bins would be empty)
        log.count("probe.layout_skipped_too_few_events")
        return
    masks = ab.get_bool_mask(used)
    cnt = np.sum(np.array(masks).astype(int), axis=0)
    pops = np.array([int(m.sum()) for m in masks])
    log.ev("bins", layout=str(bins), nb=len(masks), pops=pops.tolist()[:16])
    if len(masks) != nb:
        log.fail("bin-count", "AdaptiveBound|bin-count", "layout %s gives %d bins, expected %d" % (bins, len(masks), nb))
        return
    if not np.all(cnt == 1):
        log.fail("exactly-one-bin", "AdaptiveBound|exactly-one-bin|%s" % ("nested" if lay.startswith("nested") or lay == "mixed" else "flat"), "layout %s on %d events: %d events fall in no bin and %d in more than one" % (bins, n, int(np.sum(cnt == 0)), int(np.sum(cnt > 1))))
        return
    if n >= 4 * nb and pops.max() - pops.min() > max(1 + levels, 0.01 * n / nb):
        log.fail("near-equal", "AdaptiveBound|near-equal-populations", "layout %s on %d events: populations range from %d to %d" % (bins, n, pops.min(), pops.max()))
        return
    parts = ab.split_data(used)
    if sum(p.shape[-1] for p in parts) != n:
        log.fail("exactly-one-bin", "AdaptiveBound|split-conserves", "split_data returns %d events in total for %d" % (sum(p.shape[-1] for p in parts), n))
        return
    # structured data split by named index columns: every event (with ALL its leaves) in exactly one piece
    sd = {"v%d" % j: used[j] for j in range(used.shape[0])}
    sd["tag"] = np.arange(n, dtype=np.float64)
    try:
        pieces = ab.split_full_data(sd, ["v%d" % j for j in range(used.shape[0])])
    except Exception as e:
        log.fail("exactly-one-bin", "AdaptiveBound|split_full_data|raised|%s" % type(e).__name__, "split_full_data raised %s: %s" % (type(e).__name__, str(e)[:160]))
        return
    tags = np.concatenate([np.array(p["tag"]) for p in pieces]) if pieces else np.zeros(0)
    if len(pieces) != nb or sorted(tags.tolist()) != list(range(n)):
        log.fail("exactly-one-bin", "AdaptiveBound|split_full_data", "split_full_data: %d pieces with %d events in total (%d distinct) for %d events in %d bins" % (len(pieces), tags.size, len(set(tags.tolist())), n, nb))
        return
    for p, m in zip(pieces, masks):
        idx = np.array(p["tag"]).astype(int)
        if not np.array_equal(idx, np.nonzero(m)[0]) or any(not np.array_equal(np.array(p["v%d" % j]), used[j][idx]) for j in range(used.shape[0])):
            log.fail("exactly-one-bin", "AdaptiveBound|split_full_data|leaves", "a piece of split_full_data does not hold the events of its bin in all leaves")
            return


def run_hist(spec, log):
    import numpy as np

    from tf_pwa.histogram import Hist1D

    g = np.random.Generator(np.random.PCG64(spec["dseed"]))
    n = spec["n"]
    m = g.normal(size=n)
    w = g.random(n) * 3 if spec["weighted"] else None
    if spec.get("signed") and spec["weighted"]:
        w = np.where(g.random(n) < 0.5, 1.0, -1.0)
    lo, hi = -1.5, 1.5
    h = Hist1D.histogram(m, bins=spec["bins"], range=(lo, hi), weights=w)
    inr = (m >= lo) & (m <= hi)
    ww = np.ones(n) if w is None else w
    if not np.isclose(np.sum(h.count), np.sum(ww[inr]), rtol=1e-12, atol=1e-12):
        log.fail("sum-weights", "Hist1D|sum-weights", "sum of counts %r != sum of in-range weights %r" % (float(np.sum(h.count)), float(np.sum(ww[inr]))))
        return
    err2 = np.where(np.isinf(h.error), 0.0, h.error**2)
    if not np.isclose(np.sum(err2), np.sum(ww[inr] ** 2), rtol=1e-12, atol=1e-12):
        log.fail("sum-weights2", "Hist1D|sum-squared-weights", "sum of squared errors %r != sum of squared weights %r" % (float(np.sum(err2)), float(np.sum(ww[inr] ** 2))))


def execute(spec):
    from sim.env import Log

    log = Log(seed=spec.get("rng_seed"), prop="C20")
    kind = spec["kind"]
    nontrivial = False
    try:
        if kind == "ms":
            try:
                out_ser, st, W, preset = run_ms(spec, log)
            except StubBudget:
                # the scripted weights make the sampler too inefficient for the step cap: no verdict
                log.count("probe.step_cap_reached_no_verdict")
                res = log.result(spec=spec, nontrivial=False)
                res["opkinds"] = {"ms.capped": 1}
                return res
            check_ms(spec, log, out_ser, st, W, preset)
            nontrivial = len(st["batches"]) >= 2 or bool(st["draws"])
        elif kind == "interp_ar":
            run_interp_ar(spec, log)
            nontrivial = spec["N"] >= 5
        elif kind == "inv":
            run_inv(spec, log)
            nontrivial = True
        elif kind == "toy":
            run_toy(spec, log)
            nontrivial = spec["calls"] >= 2
        elif kind == "gen_data":
            run_gen_data(spec, log)
            nontrivial = spec["Ndata"] >= 3
        elif kind == "bins":
            run_bins(spec, log)
            nontrivial = spec["layout"] != "int"
        else:
            run_hist(spec, log)
            nontrivial = spec["n"] >= 10
    except Exception as e:
        import traceback

        tb = traceback.extract_tb(e.__traceback__)
        if "/verif/" in tb[-1].filename:
            raise
        log.ev("raised", err=type(e).__name__, msg=str(e)[:200])
        log.count("probe.library_raised")
        log.fail("raised", "%s|raised|%s" % (kind if kind != "inv" else spec.get("which"), type(e).__name__), "the sampler raised %s: %s" % (type(e).__name__, str(e)[:300]))
    res = log.result(spec=spec, nontrivial=nontrivial)
    res["opkinds"] = {kind + ("." + spec["mode"] if kind == "ms" else ""): 1}
    return res


def run(job):
    spec = job["spec"] if job.get("mode") == "spec" else generate(job)
    return execute(spec)


def shrink_candidates(spec):
    for k in ("N", "max_N", "n", "calls"):
        if isinstance(spec.get(k), int) and spec[k] > 1:
            for v in (1, 2, 5):
                if v < spec[k]:
                    s = copy.deepcopy(spec)
                    s[k] = v
                    yield s
    if spec.get("plants"):
        for i in range(len(spec["plants"])):
            s = copy.deepcopy(spec)
            del s["plants"][i]
            yield s
    for k, v in (("preset", "none"), ("importance", False), ("wshape", "uniform")):
        if k in spec and spec[k] != v:
            s = copy.deepcopy(spec)
            s[k] = v
            yield s

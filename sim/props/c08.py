"""C08 — a returned fit result and the model state describe the same point.

Simulated session: ConfigLoader(card + constraints drawn per run), toy data and phase space from the
rng seam, then a history of fits (every minimiser name fit accepts, iteration caps, gradient scale),
parameter moves, re-initialisations, saves and restarts (fresh ConfigLoader + set_params(file)).
After every fit: result.params == model state (bitwise), min_nll == NLL recomputed by the harness at the
model state, min_nll <= NLL before the fit, fixed unchanged, tied equal, bounded inside; after a restart
from file: same parameters and same NLL.
"""
import copy
import json
import os

from sim import cards
from sim.prng import Stream

FAST = ["BFGS", "BFGS", "BFGS", "CG", "CG", "L-BFGS-B", "L-BFGS-B", "Nelder-Mead", "test"]  # "test" = the library's own BFGS (fit_improve.minimize)
SLOW = ["Newton-CG", "trust-ncg", "trust-krylov", "trust-exact", "iminuit"]
VERY_SLOW = ["Newton-CG-p", "trust-ncg-p", "trust-krylov-p"]

RULE = (
    "sessions are generated from the seed: a 3-body card with 2-3 resonances, constraints (floating mass/width with one- or two-sided "
    "ranges, tied magnitudes, ranged magnitudes, fixed variables, Gaussian constraint), toy data from the seam, a start point, and a history "
    "of fit(method, maxiter, grad_scale) / set_params / reinit_params / save / restart operations. Non-trivial = at least one fit returned "
    "and the session has a constraint or >= 2 state-changing operations; distinct = distinct event-log digests."
)


FOCI = ["twin_ranges", "fix_zero_save", "phase_tie", "float_m_restart", "float_m_restart_params", "gauss_range", "gauss_groups", "fix_tied", "pull_range", "fix_fit_free", "range_mag", "pull_groups"]


def plan(tier, seed):
    jobs = []
    i = 0
    if tier == "quick":
        nfast, slow_each, vslow = 44, 1, 0
    else:
        nfast, slow_each, vslow = 1500, 40, 6
    nfocus = 2 * len(FOCI) if tier == "quick" else 12 * len(FOCI)
    for k in range(nfast):
        j = {"mode": "seed", "seed": seed * 1000003 + i, "klass": "fast"}
        if k < nfocus:
            # coverage guarantee: the feature combinations a property clause depends on appear in every batch,
            # whatever the seed; everything else of these sessions is still drawn from the seed
            j["focus"] = FOCI[k % len(FOCI)]
        jobs.append(j)
        i += 1
    for m in SLOW:
        for k in range(slow_each):
            jobs.append({"mode": "seed", "seed": seed * 1000003 + i, "klass": "slow", "method": m, "timeout": 400})
            i += 1
    for m in SLOW[:4] + (VERY_SLOW if tier != "quick" else VERY_SLOW[:1]):
        for k in range(1 if tier == "quick" else 25):
            jobs.append({"mode": "seed", "seed": seed * 1000003 + i, "klass": "slow", "method": m, "timeout": 400, "cap": 1 + (i % 2)})
            i += 1
    for m in VERY_SLOW:
        for k in range(vslow):
            jobs.append({"mode": "seed", "seed": seed * 1000003 + i, "klass": "slow", "method": m, "timeout": 900})
            i += 1
    jobs.sort(key=lambda j: 0 if j["klass"] == "slow" else 1)
    return {
        "jobs": jobs,
        "timeout": 300,
        "budget_s": 110 if tier == "quick" else 3000,
        "level": "exploration",
        "rule": RULE,
        "min_executed": 20,
        "shrink_s": 120,
        "max_shrinks": 3,
        "real_vs_stub": {
            "real": "ConfigLoader, FCN/Model likelihood, fit_scipy / fit_newton_cg / fit_minuit, SciPy minimisers, iminuit, VarsManager bound transforms, FitResult.save_as, set_params(file)",
            "simulated": "toy data and phase space (rng seam), start points, iteration caps, re-initialisation draws (rng seam), restart = fresh ConfigLoader on the surviving scratch directory",
            "stub": "none",
        },
        "assumptions": [
            "the Hessian-vector (-p) minimisers ignore maxiter and take minutes: thorough tier only",
            "min_nll is compared with the NLL recomputed by a separate FCN object built by the harness over the same data (rtol 1e-8)",
        ],
    }


# -------------------------------------------------------------------------------- generation


def generate(job):
    rs = Stream(job["seed"], "C08")
    rm, rc, ro = rs.child("model"), rs.child("constr"), rs.child("ops")
    slow = job.get("klass") == "slow"
    card = cards.make_card(rm, "S3", n_res=2 if (slow or rm.chance(0.7)) else 3)
    for name, p in card["particle"].items():
        if name.startswith("R_"):
            if slow:  # Newton/trust/minuit ignore maxiter: smallest problem (scalar resonances, few parameters)
                p["J"], p["P"] = 0, 1
    spec = {
        "card": card,
        "n_data": 20 if slow else rm.choice([25, 40]),
        "n_phsp": 50 if slow else rm.choice([80, 120]),
        "data_seed": rm.randrange(1 << 30),
        "true_seed": rm.randrange(1 << 30),
        "start_seed": rm.randrange(1 << 30),
        "batch": rm.choice([65000, 7, 33]),
    }
    # constraints (resolved against the built model by index)
    cons = []
    for _ in range(rc.weighted([(0, 1), (1, 3), (2, 4), (3, 2)]) if not slow else rc.weighted([(0, 1), (1, 3)])):
        k = rc.weighted([("float_m", 3), ("float_g", 2), ("float_mg", 2), ("var_equal", 3), ("var_range", 3), ("fix_var", 2), ("gauss", 1), ("fix_tied", 1.5), ("var_equal_phase", 1.5)])
        cons.append({"k": k, "i": rc.randrange(100), "j": rc.randrange(100), "side": rc.choice(["two", "two", "lower", "upper"]), "w": round(rc.uniform(0.05, 0.4), 3), "v": round(rc.uniform(0.3, 1.5), 3)})
    focus = job.get("focus")
    if focus and not slow:
        i0 = rc.randrange(100)
        base = {"i": i0, "j": rc.randrange(100), "side": "two", "w": round(rc.uniform(0.05, 0.2), 3), "v": round(rc.uniform(0.3, 1.5), 3)}
        cons = {
            "float_m_restart": [dict(base, k="float_m")],
            "float_m_restart_params": [dict(base, k="float_m", side=rc.choice(["two", "lower", "upper"]))],
            "gauss_range": [dict(base, k="float_m"), dict(base, k="gauss")],
            "gauss_groups": [dict(base, k=rc.choice(["float_m", "float_mg"])), dict(base, k="gauss")],
            "fix_tied": [dict(base, k="fix_tied")],
            "pull_range": [dict(base, k="float_m", side=rc.choice(["two", "lower", "upper"]))],
            "fix_fit_free": [dict(base, k="float_m", side=rc.choice(["two", "lower", "upper"]))],
            "range_mag": [dict(base, k="var_range", j=1)],
            "pull_groups": [dict(base, k="float_m"), dict(base, k="var_range", j=1)],
            "twin_ranges": [dict(base, k="float_m", w=round(rc.uniform(0.1, 0.2), 3))],
            "fix_zero_save": [],
            "phase_tie": [dict(base, k="var_equal_phase")],
        }[focus] + cons[:1]
        if focus in ("gauss_groups", "pull_groups"):
            spec["n_groups"] = 2
        if focus in ("pull_range", "fix_fit_free", "pull_groups", "twin_ranges"):
            spec["pull"] = rc.choice([1.0, 2.0])
        if focus == "twin_ranges":
            spec["twin"] = True
    else:
        if not slow and rc.chance(0.15):
            spec["n_groups"] = 2
        if not slow and rc.chance(0.25):
            spec["pull"] = rc.choice([1.0, 2.0])
    spec["constraints"] = cons
    if any(c["k"] in ("var_equal", "fix_tied", "var_equal_phase") for c in cons) and not slow:
        spec["card"] = cards.make_card(rs.child("model3"), "S3", n_res=3)  # two free magnitudes to tie
    ops = []
    if slow:
        ops.append({"k": "fit", "method": job["method"], "maxiter": 3, "grad_scale": 1.0})
        if job.get("cap") and job["method"] != "iminuit":
            # the Newton-type minimiser hits its iteration limit (stopped early, success = False), the result is
            # saved and the fit continued on the restarted model
            ops[0]["cap"] = job["cap"]
            ops.append({"k": "save_restart", "how": "save_as"})
            ops.append({"k": "fit", "method": job["method"], "maxiter": 3, "grad_scale": 1.0, "cap": job["cap"]})
        elif ro.chance(0.5):
            ops.append({"k": "save_restart", "how": ro.choice(["save_as", "save_params"])})
    else:
        n = ro.randint(2, 4)
        for _ in range(n):
            k = ro.weighted([("fit", 6), ("set_params", 2), ("reinit", 1), ("save_restart", 3), ("fit_interrupted", 1.5)])
            if k == "fit":
                ops.append({"k": "fit", "method": ro.choice(FAST), "maxiter": ro.choice([1, 2, 3, 5, 8]), "grad_scale": ro.choice([1.0, 1.0, 2.0]), "jac": ro.choice([True, True, True, True, "2-point"]), "monitor": ro.chance(0.25), "check_grad": ro.chance(0.15)})
            elif k == "fit_interrupted":
                ops.append({"k": "fit_interrupted", "method": ro.choice(["BFGS", "BFGS", "CG", "L-BFGS-B"]), "after": ro.choice([1, 2, 3]), "how": ro.choice(["callback", "callback", "line", "line"]), "pos": ro.choice([300, 3000, 20000, 60000, 150000])})
            elif k == "set_params":
                ops.append({"k": "set_params", "seed": ro.randrange(1 << 30), "scale": ro.choice([0.3, 1.0])})
            elif k == "reinit":
                ops.append({"k": "reinit", "seed": ro.randrange(1 << 30)})
            else:
                ops.append({"k": "save_restart", "how": ro.choice(["save_as", "save_params"])})
        if not any(o["k"] == "fit" for o in ops):
            ops.insert(0, {"k": "fit", "method": "BFGS", "maxiter": 3, "grad_scale": 1.0})
        fit = lambda m, n=3: {"k": "fit", "method": m, "maxiter": n, "grad_scale": 1.0, "jac": True, "monitor": False}
        if focus in ("float_m_restart", "float_m_restart_params"):
            ops = [fit("BFGS"), {"k": "save_restart", "how": "save_as" if focus == "float_m_restart" else "save_params"}] + ops[:2]
        elif focus in ("gauss_range", "gauss_groups"):
            ops = [fit(ro.choice(FAST)), fit(ro.choice(FAST))] + ops[:1]
        elif focus in ("pull_range", "pull_groups"):
            ops = [fit(ro.choice(FAST), 8), fit(ro.choice(FAST), 8)] + ops[:1]
        elif focus == "fix_fit_free":
            ops = [{"k": "fix_fit_free", "method": ro.choice(FAST), "maxiter": 2}, fit(ro.choice(FAST), 8), fit(ro.choice(FAST), 8)] + ops[:1]
        elif focus == "twin_ranges":
            ops = [fit(ro.choice(["BFGS", "CG", "BFGS"]), 8)]
        elif focus == "fix_zero_save":
            ops = [{"k": "fix_zero_save", "method": ro.choice(FAST), "i": ro.randrange(100), "how": ro.choice(["save_as", "save_params"])}, fit(ro.choice(FAST))] + ops[:1]
        elif focus in ("fix_tied", "range_mag"):
            ops = [fit(ro.choice(FAST))] + ops[:2]
        elif focus == "phase_tie":
            ops = [fit(ro.choice(["BFGS", "CG", "L-BFGS-B"]), ro.choice([2, 4])), fit(ro.choice(FAST))] + ops[:1]
        elif ro.chance(0.15):
            ops.insert(ro.randrange(len(ops)), {"k": "fix_fit_free", "method": ro.choice(FAST), "maxiter": 2})
        elif ro.chance(0.12):
            ops.insert(ro.randrange(len(ops)), {"k": "fix_zero_save", "method": ro.choice(FAST), "i": ro.randrange(100), "how": ro.choice(["save_as", "save_params"])})
    spec["ops"] = ops
    return spec


# -------------------------------------------------------------------------------- execution


def apply_constraints(card, cons, names, log, free=None):
    """returns the card with a constrains section; names: parameter names of the unconstrained model"""
    card = copy.deepcopy(card)
    res = sorted(n for n in card["particle"] if n.startswith("R_"))
    mags = sorted(n for n in names if n.endswith("_total_0r"))
    free_mags = [n for n in mags if free is None or n in free]
    gls = sorted(n for n in names if "_g_ls_" in n and n.endswith("r"))
    constr = {}
    used = set()
    info = {"ranges": {}, "ties": [], "fixed": {}}
    for c in cons:
        k = c["k"]
        if k.startswith("float"):
            r = res[c["i"] % len(res)]
            if ("float", r) in used:
                continue
            used.add(("float", r))
            p = card["particle"][r]
            fl = {"float_m": "m", "float_g": "g", "float_mg": "mg"}[k]
            p["float"] = fl
            prm = {}
            if "m" in fl:
                m0 = p["mass"]
                if c["side"] in ("two", "lower"):
                    prm["mass_min"] = round(m0 - c["w"], 4)
                if c["side"] in ("two", "upper"):
                    prm["mass_max"] = round(m0 + c["w"], 4)
            if "g" in fl:
                g0 = p["width"]
                if c["side"] in ("two", "lower"):
                    prm["width_min"] = round(max(g0 * 0.3, 0.005), 4)
                if c["side"] in ("two", "upper"):
                    prm["width_max"] = round(g0 * 3, 4)
            if prm:
                p["params"] = prm
            if "m" in fl and ("mass_min" in prm or "mass_max" in prm):
                info["ranges"][r + "_mass"] = (prm.get("mass_min"), prm.get("mass_max"))
            if "g" in fl and ("width_min" in prm or "width_max" in prm):
                info["ranges"][r + "_width"] = (prm.get("width_min"), prm.get("width_max"))
        elif k == "var_equal" and len(mags) >= 2:
            pool = free_mags if len(free_mags) >= 2 else mags  # prefer two free magnitudes (a tie with the fixed one fixes both)
            a, b = pool[c["i"] % len(pool)], pool[(c["i"] + 1 + c["j"] % (len(pool) - 1)) % len(pool)]
            if a != b and ("tie", a) not in used and ("tie", b) not in used:
                used.add(("tie", a))
                used.add(("tie", b))
                constr.setdefault("var_equal", []).append([a, b])
                info["ties"].append([a, b])
        elif k == "var_equal_phase" and len(free_mags) >= 2:
            # only the PHASES of two free couplings are tied (their magnitudes stay independent)
            ph = [n[:-1] + "i" for n in free_mags if n[:-1] + "i" in names]
            if len(ph) >= 2:
                a, b = ph[c["i"] % len(ph)], ph[(c["i"] + 1) % len(ph)]
                if a != b and not any(("tie", x) in used or ("range", x) in used for x in (a, b)):
                    used.update({("tie", a), ("tie", b)})
                    constr.setdefault("var_equal", []).append([a, b])
                    info["ties"].append([a, b])
                    info.setdefault("phase_ties", []).append([a, b])
        elif k == "fix_tied" and len(free_mags) >= 2:
            # the same variable fixed AND the non-first member of a tie whose first member is free
            a, b = free_mags[c["i"] % len(free_mags)], free_mags[(c["i"] + 1) % len(free_mags)]
            if a != b and ("tie", a) not in used and ("tie", b) not in used and ("fix", b) not in used:
                used.update({("tie", a), ("tie", b), ("fix", b)})
                constr.setdefault("var_equal", []).append([a, b])
                constr.setdefault("fix_var", {})[b] = c["v"]
                info["ties"].append([a, b])
                info["fixed"][b] = c["v"]
                info["fixed"][a] = c["v"]
        elif k == "var_range" and mags:
            phases = sorted(n[:-1] + "i" for n in free_mags if n[:-1] + "i" in names)
            if phases and c["j"] % 3 == 0:
                # a range on a phase with one limit exactly 0
                a = phases[c["i"] % len(phases)]
                if ("range", a) in used:
                    continue
                used.add(("range", a))
                constr.setdefault("var_range", {})[a] = [-3.2, 0] if c["j"] % 2 else [0, 3.2]
                info["ranges"][a] = tuple(constr["var_range"][a])
                continue
            a = mags[c["i"] % len(mags)]
            if ("range", a) in used or ("tie", a) in used:
                continue
            used.add(("range", a))
            lo, hi = {"two": (0.0, 4.0), "lower": (0.0, None), "upper": (None, 4.0)}[c["side"]]
            constr.setdefault("var_range", {})[a] = [lo, hi]
            info["ranges"][a] = (lo, hi)
        elif k == "fix_var" and gls:
            a = gls[c["i"] % len(gls)]
            if ("fix", a) in used:
                continue
            used.add(("fix", a))
            constr.setdefault("fix_var", {})[a] = c["v"]
            info["fixed"][a] = c["v"]
        elif k == "gauss":
            r = res[c["i"] % len(res)]
            p = card["particle"][r]
            if "float" in p and "m" in p["float"] and "gauss_constr" not in p:
                p["gauss_constr"] = {"m": 0.05}
    if constr:
        card["constrains"] = constr
    return card, info


class Session:
    def __init__(self, spec, log, scratch):
        import numpy as np

        from sim.seams import rng_seam

        self.np, self.spec, self.log, self.scratch = np, spec, log, scratch
        base = cards.build(spec["card"])
        names = list(base.get_params().keys())
        self.card, self.info = apply_constraints(spec["card"], spec["constraints"], names, log, free=set(base.get_amplitude().vm.trainable_vars))
        log.ev("card", constr=self.card.get("constrains"), floats={k: (v.get("float"), v.get("params")) for k, v in self.card["particle"].items() if k.startswith("R_")})
        self.config = self.build()
        amp = self.config.get_amplitude()
        # what the card declares fixed is not free, neither directly nor through a tie partner
        vm0 = amp.vm
        for n in self.info["fixed"]:
            if n in vm0.variables:
                shared = [t for t in vm0.trainable_vars if vm0.variables[t] is vm0.variables[n]]
                if n in vm0.trainable_vars or shared:
                    log.fail("fixed-unchanged", "config|fix_var-still-free", "the card fixes %s (fix_var) but after loading it is still free%s" % (n, " through its tie partner %s" % shared[0] if shared else ""))
        # "true" point -> toy data and phase space from the seam
        cards.randomize_params(amp, Stream(spec["true_seed"], "true"), 0.8)
        if spec.get("pull"):
            # the toy data are generated with the floating masses OUTSIDE their declared range: the likelihood
            # pulls a fit across the limit, only the bound keeps it inside
            rp = Stream(spec["true_seed"], "pull")
            p0 = amp.get_params()
            for n, (lo, hi) in sorted(self.info["ranges"].items()):
                if n.endswith("_mass") and n in p0:
                    side = "hi" if lo is None else ("lo" if hi is None else rp.choice(["lo", "hi"]))
                    w = (hi - float(p0[n])) if side == "hi" else (float(p0[n]) - lo)
                    amp.set_params({n: (hi + spec["pull"] * w) if side == "hi" else (lo - spec["pull"] * w)})
                    log.count("probe.true_point_outside_declared_range")
        ng = spec.get("n_groups", 1)
        with rng_seam(spec["data_seed"]):
            self.phsp = [self.config.generate_phsp(spec["n_phsp"]) for _ in range(ng)]
            self.data = [self.config.generate_toy(max(spec["n_data"] // ng, 10), max_N=400) for _ in range(ng)]
        if spec.get("pull"):
            amp.set_params({n: float(p0[n]) for n in self.info["ranges"] if n.endswith("_mass") and n in p0})
        if ng > 1:
            log.count("probe.multi_group_fit")
        cards.randomize_params(amp, Stream(spec["start_seed"], "start"), 0.8, p_neg=0.3)
        self.negate_ties(Stream(spec["start_seed"], "neg"))
        self.inside_bounds()
        self.nfits = 0
        self.changing = 0

    def build(self):
        return cards.build(self.card)

    def inside_bounds(self):
        """a start point lies inside the configured ranges (fit() clips a start value outside its range to the
        boundary, i.e. starts somewhere else)"""
        amp = self.config.get_amplitude()
        p = amp.get_params()
        upd = {}
        for n, (lo, hi) in self.bounds(self.config).items():
            if n not in p:
                continue
            v = float(p[n])
            if lo is not None and v < lo + 0.02:
                v = lo + 0.02 + 0.1 * abs(v - lo) / (1 + abs(v - lo))
            if hi is not None and v > hi - 0.02:
                v = hi - 0.02 - 0.1 * abs(v - hi) / (1 + abs(v - hi))
            if v != float(p[n]):
                upd[n] = v
        if upd:
            amp.set_params(upd)

    def negate_ties(self, rs):
        """directed start points: a shared (tied) magnitude starts negative in most sessions - a legal point
        (phase shifted by pi) that post-fit standardisation must treat consistently for all tied names"""
        amp = self.config.get_amplitude()
        for a, b in self.info["ties"]:
            if rs.chance(0.6):
                n = a[:-1] + "r" if a.endswith("i") else a  # phase tie: the radius of one partner starts negative
                v = float(amp.get_params()[n])
                amp.set_params({n: -abs(v) - 0.2})

    def my_nll(self, config):
        fcn = config.get_fcn([self.data, self.phsp, None, None], batch=self.spec["batch"])
        return float(fcn({}))

    def bounds(self, config):
        """the ranges the CARD declares (independent of what the library currently remembers)"""
        return dict(self.info["ranges"])

    def run_op(self, i, op):
        np, log = self.np, self.log
        config = self.config
        amp = config.get_amplitude()
        vm = amp.vm
        k = op["k"]
        log.count("op." + k + ("." + op["method"] if k in ("fit", "fit_interrupted") else ""))
        if k == "set_params":
            cards.randomize_params(amp, Stream(op["seed"], "move"), op.get("scale", 1.0), p_neg=0.3)
            self.negate_ties(Stream(op["seed"], "neg"))
            self.inside_bounds()
            self.changing += 1
            return
        if k == "reinit":
            from sim.seams import rng_seam

            with rng_seam(op["seed"]):
                config.reinit_params()
            self.inside_bounds()
            self.changing += 1
            return
        if k == "save_restart":
            return self.save_restart(i, op)
        if k == "fit_interrupted":
            return self.fit_interrupted(i, op)
        if k == "fix_zero_save":
            # a free phase is fixed at exactly 0.0 by the user, the rest is fitted, the result is saved and loaded
            # into a freshly built model (where that phase is free and starts somewhere else)
            cand = [n for n in sorted(vm.trainable_vars) if n.endswith("i")]
            if not cand or len(vm.trainable_vars) < 2:  # a fit needs at least one free parameter afterwards
                return
            name = cand[op.get("i", 0) % len(cand)]
            vm.set_fix(name, 0.0)
            log.count("probe.parameter_fixed_at_exactly_zero")
            r = self.run_op(i, {"k": "fit", "method": op["method"], "maxiter": 2, "grad_scale": 1.0})
            if r == "stop":
                return r
            return self.save_restart(i, {"how": op.get("how", "save_as")})
        if k == "fix_fit_free":
            # the likelihood-profile pattern: fix a (ranged) free parameter, fit the rest, free it again
            cand = [n for n in sorted(self.info["ranges"]) if n in vm.trainable_vars] or [n for n in sorted(vm.trainable_vars) if n.endswith("r")][:1]
            if not cand or len(vm.trainable_vars) < 2:  # a fit needs at least one free parameter afterwards
                return
            name = cand[0]
            vm.set_fix(name)
            log.count("probe.parameter_fixed_for_one_fit")
            try:
                r = self.run_op(i, {"k": "fit", "method": op["method"], "maxiter": op.get("maxiter", 2), "grad_scale": 1.0})
            finally:
                vm.set_fix(name, unfix=True)
            return r
        # ---- fit
        if not vm.trainable_vars:
            log.count("probe.no_free_parameter_left_fit_skipped")  # nothing to minimise: not a fit
            return
        method = op["method"]
        before = {kk: float(v) for kk, v in config.get_params().items()}
        free_before = list(vm.trainable_vars)
        fixed_names = [n for n in before if n not in free_before and not any(vm.variables[n] is vm.variables[f] for f in free_before)]
        nll0 = self.my_nll(config)
        if not np.isfinite(nll0):
            log.ev("start-nll-not-finite")
            return
        mkey = method
        try:
            kw = {}
            if op.get("monitor") and method in ("BFGS", "CG"):
                # a user callback that monitors the NLL of a reference point: FCN.__call__(params) writes that
                # point into the model, the fit must still end at ITS point
                ref_point = dict(before)

                def monitor(x, fcn):
                    fcn(ref_point)

                kw["callback"] = monitor
                log.count("fault.callback_with_side_effects")
            if op.get("jac", True) is not True and method in ("BFGS", "CG"):
                kw["jac"] = op["jac"]
                mkey = method + "(jac=%s)" % op["jac"]
            if op.get("check_grad"):
                kw["check_grad"] = True  # the gradient is compared with finite differences after the minimisation
                mkey = mkey + "(check_grad)"
            import contextlib

            from sim.seams import iteration_cap

            cap = iteration_cap(op["cap"]) if op.get("cap") else contextlib.nullcontext()
            if op.get("cap"):
                log.count("fault.minimiser_iteration_limit")
            with cap:
                res = config.fit(self.data, self.phsp, method=method, maxiter=op.get("maxiter"), grad_scale=op.get("grad_scale", 1.0), batch=self.spec["batch"], print_init_nll=False, **kw)
        except Exception as e:
            import traceback

            tb = traceback.extract_tb(e.__traceback__)
            if "/verif/" in tb[-1].filename:
                raise
            log.fail("fit-returns", "fit|%s|raised|%s" % (mkey, type(e).__name__), "config.fit(method=%r, maxiter=%r) raised %s: %s (at %s:%d)" % (method, op.get("maxiter"), type(e).__name__, str(e)[:200], os.path.basename(tb[-1].filename), tb[-1].lineno), step=i)
            return "stop"
        self.nfits += 1
        self.changing += 1
        after = {kk: float(v) for kk, v in config.get_params().items()}
        rp = {kk: float(v) for kk, v in dict(res.params).items()}
        log.ev("fit", method=method, maxiter=op.get("maxiter"), min_nll=res.min_nll, success=bool(res.success), nparams=len(rp))
        # (a) result == model
        diff = [(n, rp[n], after.get(n)) for n in rp if after.get(n) != rp[n]]
        if diff:
            log.fail("result-equals-model", "fit|%s|result-equals-model" % mkey, "after fit(method=%s): result lists %s but the model holds different values (first: %s = %r in the result, %r in the model)" % (method, len(diff), diff[0][0], diff[0][1], diff[0][2]), step=i)
            return "stop"
        # (b) reported minimum == NLL at the model state
        nll1 = self.my_nll(config)
        if not (abs(nll1 - res.min_nll) <= 1e-8 * max(1.0, abs(nll1))):
            log.fail("min-nll-is-nll-at-result", "fit|%s|min-nll-is-nll-at-result" % mkey, "fit(method=%s, grad_scale=%s): reported min_nll %.12g but the NLL at the model state is %.12g" % (method, op.get("grad_scale"), res.min_nll, nll1), step=i)
            return "stop"
        # (c) not above the start
        if not (res.min_nll <= nll0 + 1e-9 * max(1.0, abs(nll0))):
            log.fail("not-above-start", "fit|%s|not-above-start" % mkey, "fit(method=%s): min_nll %.12g is above the starting NLL %.12g" % (method, res.min_nll, nll0), step=i)
            return "stop"
        # (d) fixed unchanged
        for n in fixed_names:
            if after[n] != before[n]:
                log.fail("fixed-unchanged", "fit|%s|fixed-unchanged" % mkey, "fixed parameter %s changed in fit(method=%s): %r -> %r" % (n, method, before[n], after[n]), step=i)
                return "stop"
        # (e) tied equal
        for a, b in self.info["ties"]:
            if after.get(a) != after.get(b):
                log.fail("tied-equal", "fit|%s|tied-equal" % mkey, "tied parameters %s and %s differ after fit(method=%s): %r vs %r" % (a, b, method, after.get(a), after.get(b)), step=i)
                return "stop"
        # (f) bounded inside
        for n, (lo, hi) in self.bounds(config).items():
            if n in after and n in free_before:
                y = after[n]
                if (lo is not None and y < lo - 1e-9) or (hi is not None and y > hi + 1e-9):
                    log.fail("bounded-inside", "fit|%s|bounded-inside" % mkey, "bounded parameter %s = %r is outside [%r, %r] after fit(method=%s)" % (n, y, lo, hi, method), step=i)
                    return "stop"
        self.last_result = res
        self.last_nll = nll1
        if not res.success:
            log.count("probe.fit_stopped_early")
        log.state(sorted(after.items()))

    def fit_interrupted(self, i, op):
        """a fit that does not return: the user's callback raises after a few iterations (the Ctrl-C / failing
        monitor analogue).  No result exists, so nothing is claimed about it; what is claimed is that the session
        stays usable: every later fit must satisfy all clauses again (leftover bounds / transformed coordinates
        of the aborted fit would show there)."""
        config = self.config
        n = [0]

        class Abort(Exception):
            pass

        def cb(x, fcn):
            n[0] += 1
            if n[0] >= op.get("after", 2):
                raise Abort()

        from sim.seams import InjectedFault, InjectedInterrupt, LineTracer
        import sys

        try:
            if op.get("how") == "line":
                # an exception at a seeded Python line somewhere inside the fit (likelihood evaluation, bound
                # transformation, bookkeeping): the Ctrl-C / failing kernel analogue
                tr = LineTracer(fire_at=op.get("pos", 3000), exc_type=InjectedInterrupt if op.get("pos", 0) % 7 == 0 else InjectedFault)
                try:
                    with tr:
                        config.fit(self.data, self.phsp, method=op.get("method", "BFGS"), maxiter=6, batch=self.spec["batch"], print_init_nll=False)
                finally:
                    sys.settrace(None)
                self.log.count("probe.interrupted_fit_finished_before_the_fault")
            else:
                config.fit(self.data, self.phsp, method=op.get("method", "BFGS"), maxiter=20, batch=self.spec["batch"], print_init_nll=False, callback=cb)
                self.log.count("probe.interrupted_fit_finished_before_the_fault")
        except (InjectedFault, InjectedInterrupt):
            self.log.count("fault.fit_interrupted_at_line")
        except Abort:
            self.log.count("fault.fit_aborted_by_callback_exception")
        except Exception as e:
            import traceback

            tb = traceback.extract_tb(e.__traceback__)
            if "/verif/" in tb[-1].filename:
                raise
            self.log.ev("interrupted-fit-raised", err=type(e).__name__)
        self.changing += 1
        self.last_result = None
        # the aborted fit leaves the model at some intermediate point: a legal start for whatever comes next,
        # but it must be a point inside the configured ranges
        self.inside_bounds_or_note()

    def inside_bounds_or_note(self):
        p = {kk: float(v) for kk, v in self.config.get_params().items()}
        for n, (lo, hi) in self.bounds(self.config).items():
            if n in p and ((lo is not None and p[n] < lo - 1e-9) or (hi is not None and p[n] > hi + 1e-9)):
                self.log.count("probe.aborted_fit_left_parameter_outside_range")
                self.inside_bounds()
                return

    def save_restart(self, i, op):
        log = self.log
        config = self.config
        how = op.get("how", "save_as")
        fn = os.path.join(self.scratch, "params_%d.json" % i)
        if how == "save_as":
            if getattr(self, "last_result", None) is None:
                return
            # the result must still describe the model (no move since the fit)
            cur = {kk: float(v) for kk, v in config.get_params().items()}
            if any(cur.get(n) != float(v) for n, v in dict(self.last_result.params).items()):
                return
            try:
                self.last_result.save_as(fn)
            except Exception as e:
                log.fail("reload", "restart|save_as|raised|%s" % type(e).__name__, "FitResult.save_as raised %s: %s (success=%r of type %s)" % (type(e).__name__, str(e)[:200], self.last_result.success, type(self.last_result.success).__name__), step=i)
                return "stop"
        else:
            config.save_params(fn)
        saved = {kk: float(v) for kk, v in config.get_params().items()}
        nll_saved = self.my_nll(config)
        # ---- restart: a freshly built model on the same card loads the file
        fresh = self.build()
        ok = fresh.set_params(fn)
        log.count("probe.restart_from_file")
        self.changing += 1
        if not ok:
            log.fail("reload", "restart|%s|set_params-refused" % how, "set_params(%s file) returned False" % how, step=i)
            return "stop"
        got = {kk: float(v) for kk, v in fresh.get_params().items()}
        diff = [(n, saved[n], got.get(n)) for n in saved if got.get(n) != saved[n]]
        if diff:
            log.fail("reload-same-parameters", "restart|%s|same-parameters" % how, "after loading the %s file into a fresh model %d parameters differ (first: %s saved %r, loaded %r)" % (how, len(diff), diff[0][0], diff[0][1], diff[0][2]), step=i)
            return "stop"
        nll_f = self.my_nll(fresh)
        if not (abs(nll_f - nll_saved) <= 1e-10 * max(1.0, abs(nll_saved))):
            log.fail("reload-same-nll", "restart|%s|same-nll" % how, "NLL of the fresh model after loading the file is %.14g, the saved state had %.14g" % (nll_f, nll_saved), step=i)
            return "stop"
        # continue the session on the restarted model
        self.config = fresh
        self.last_result = None


def execute(spec):
    from sim.env import Log, Scratch

    log = Log(seed=spec.get("data_seed"), prop="C08")
    with Scratch("c08") as scratch:
        ses = Session(spec, log, scratch)
        for i, op in enumerate(spec["ops"]):
            r = ses.run_op(i, op)
            if r == "stop":
                break
        if spec.get("twin") and not log.failures:
            # a second, independent model in the same process: the same card with NARROWER ranges for the same
            # parameter names (half the width); its fits must respect ITS ranges
            spec2 = copy.deepcopy(spec)
            for c in spec2["constraints"]:
                c["w"] = round(c["w"] * 0.5, 4)
            spec2["data_seed"] = spec["data_seed"] + 1
            log.count("probe.second_model_with_other_ranges")
            ses2 = Session(spec2, log, scratch)
            for i, op in enumerate([o for o in spec["ops"] if o["k"] == "fit"][:2] or [{"k": "fit", "method": "BFGS", "maxiter": 8, "grad_scale": 1.0}]):
                if ses2.run_op(100 + i, op) == "stop":
                    break
    has_constr = bool(spec["constraints"])
    res = log.result(spec=spec, nontrivial=ses.nfits >= 1 and (has_constr or ses.changing >= 2))
    res["opkinds"] = {k[3:]: v for k, v in log.counters.items() if k.startswith("op.")}
    return res


def run(job):
    spec = job["spec"] if job.get("mode") == "spec" else generate(job)
    return execute(spec)


def shrink_candidates(spec):
    for i in range(len(spec.get("constraints", []))):
        s = copy.deepcopy(spec)
        del s["constraints"][i]
        yield s
    for i, op in enumerate(spec.get("ops", [])):
        if op["k"] == "fit" and op.get("maxiter", 0) > 1:
            s = copy.deepcopy(spec)
            s["ops"][i]["maxiter"] = 1
            yield s
        if op["k"] == "fit" and op.get("grad_scale", 1.0) != 1.0:
            s = copy.deepcopy(spec)
            s["ops"][i]["grad_scale"] = 1.0
            yield s
    if spec.get("batch") != 65000:
        s = copy.deepcopy(spec)
        s["batch"] = 65000
        yield s

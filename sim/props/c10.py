"""C10 — phase-space events are physical, exactly counted and Lorentz-invariant flat.

The nondeterminism that is simulated is the uniform random stream consumed by the data-dependent
accept/refill loop of PhaseSpaceGenerator (rng seam: seeded i.i.d. streams and scripted acceptance
schedules / boundary draws).  Recorded history: every proposal (mass vector, weight, acceptance
uniform) and every emitted event.  History checks: exactly N events, emitted event r is built from
the r-th accepted proposal (exactly-once, order), on-shell, 4-momentum conservation for the parent
and every nested fixed-mass node, every proposal weight in [0,1], and flatness as an exact identity
weight*g/f = const (g: proposal density from the kinematic limits, f: phase-space density prod q_i,
both computed independently by the reference model).
"""
import copy
import os
import math

from sim.prng import Stream

RULE = (
    "sessions are generated from the seed: kind (flat n-body generator, nested chain generator, gen_mc, configuration "
    "with fixed-mass resonances), n = 2..6 bodies, mass sets incl. massless and near-threshold daughters, N in {1,2,7,40,300}, "
    "and a random-stream script (i.i.d., scripted acceptance schedule for the first/later batches, boundary draws). "
    "Non-trivial = the refill loop ran at least once or a scripted schedule was applied or the structure is nested; distinct = distinct event-log digests."
)


def plan(tier, seed):
    n = 420 if tier == "quick" else 20000
    jobs = [{"mode": "seed", "seed": seed * 1000003 + i} for i in range(n)]
    return {
        "jobs": jobs,
        "timeout": 120,
        "budget_s": 70 if tier == "quick" else 2400,
        "level": "exploration",
        "rule": RULE,
        "min_executed": 100,
        "shrink_s": 40,
        "real_vs_stub": {
            "real": "tf_pwa.phasespace (PhaseSpaceGenerator, ChainGenerator, generate_phsp), applications.gen_mc, ConfigLoader.generate_phsp_p, tf_pwa.angle boosts",
            "simulated": "uniform random stream (tf.random.uniform through the rng seam): seeded i.i.d., scripted acceptance schedules, boundary draws",
            "stub": "none",
        },
        "assumptions": [
            "flatness is decided as the exact identity weight*g/f = const per generator, with f and g computed by the reference model from the proposal masses; no statistical test in this tier",
            "tolerances: on-shell |E^2-p^2-m^2| <= 1e-11*m0^2, conservation 1e-9*m0 (boosts of light sub-systems amplify rounding by their gamma), flatness identity 1e-9 relative",
        ],
    }


# ----------------------------------------------------------------------------- generation


def gen_masses(rs, n, style):
    m0 = round(rs.uniform(1.0, 6.0), 4)
    if style == "plain" and rs.chance(0.25):
        # the same kinematics in MeV: momenta products far above one
        fr = [rs.uniform(0.05, 1.0) for _ in range(n)]
        tot = m0 * rs.uniform(0.2, 0.9)
        return round(m0 * 1000.0, 1), [round(1000.0 * tot * f / sum(fr), 2) for f in fr]
    if style == "light":
        ms = [round(rs.uniform(0.0, 0.2), 4) if rs.chance(0.7) else 0.0 for _ in range(n)]
    elif style == "massless":
        ms = [0.0 if rs.chance(0.6) else round(rs.uniform(0.01, 0.3), 4) for _ in range(n)]
    elif style == "threshold":
        fr = [rs.uniform(0.2, 1.0) for _ in range(n)]
        q = rs.choice([1e-2, 1e-4, 1e-6])
        tot = m0 * (1 - q)
        ms = [tot * f / sum(fr) for f in fr]
    else:
        fr = [rs.uniform(0.05, 1.0) for _ in range(n)]
        tot = m0 * rs.uniform(0.2, 0.9)
        ms = [round(tot * f / sum(fr), 5) for f in fr]
    return m0, ms


def gen_struct(rs, m0, depth, maxn):
    """nested structure (m0, [children]) with fixed intermediate masses; returns list of children"""
    n = rs.randint(2, maxn)
    budget = m0 * rs.uniform(0.5, 0.95)
    fr = [rs.uniform(0.2, 1.0) for _ in range(n)]
    children = []
    for f in fr:
        m = budget * f / sum(fr)
        if depth > 0 and rs.chance(0.55) and m > 0.3:
            sub = gen_struct(rs, m, depth - 1, 3)
            children.append([round(m, 6), sub])
        else:
            children.append(round(m * rs.uniform(0.3, 1.0), 6) if rs.chance(0.9) else 0.0)
    return children


def generate(job):
    rs = Stream(job["seed"], "C10")
    kind = rs.weighted([("flat", 6), ("chain", 4), ("gen_mc", 1), ("config", 1)])
    N = rs.choice([1, 2, 7, 40, 40, 300])
    spec = {"kind": kind, "N": N, "rng_seed": rs.randrange(1 << 30)}
    spec["script"] = rs.weighted([("iid", 5), ("accept_j", 4), ("boundary", 2)])
    if spec["script"] == "accept_j":
        spec["j_first"] = rs.choice(["0", "1", "N-1", "N", "N+1", "half"])
        spec["j_later"] = rs.choice(["0_then_all", "1", "all", "iid"])
        if spec["j_later"] == "1":
            spec["N"] = min(spec["N"], 7)  # one acceptance per refill batch: keep the number of batches small
    spec["variant"] = rs.weighted([("plain", 6), ("cal_max", 2), ("no_force", 1), ("weights", 1), ("interrupted", 1), ("cal_max_interrupted", 1), ("fresh_after_importance", 1), ("list_reuse", 1)]) if kind == "flat" else ("cal_max" if (kind == "config" and rs.chance(0.3)) else "plain")
    if kind in ("flat", "gen_mc"):
        n = rs.weighted([(2, 1), (3, 4), (4, 3), (5, 3), (6, 2)])
        m0, ms = gen_masses(rs, n, rs.weighted([("plain", 5), ("light", 2), ("massless", 2), ("threshold", 2)]))
        spec.update(m0=m0, mi=ms)
        if n >= 5:
            spec["N"] = min(spec["N"], 40)
    elif kind == "chain":
        m0 = round(rs.uniform(2.0, 6.0), 4)
        spec.update(m0=m0, mi=gen_struct(rs, m0, rs.choice([1, 2, 2, 3]), 4))
        spec["N"] = min(spec["N"], 40)
    else:
        spec["card"] = rs.choice(["one_R_BC", "two_one_nodes", "plain", "plain", "plain4"])
        spec["N"] = min(spec["N"], 40)
        if spec["card"] in ("plain", "plain4") and rs.chance(0.75):
            # the nodes= keyword (importance-sampling workflow): asks for given final-state particles to be
            # generated last; a re-ordering of the generator, never of the particle labels
            fin = ["B", "C", "D"] + (["E"] if spec["card"] == "plain4" else [])
            nodes = []
            for _ in range(rs.choice([1, 1, 2])):
                k = rs.randint(1, len(fin) - 1)
                pool = list(fin)
                node = []
                for _ in range(k):
                    node.append(pool.pop(rs.randrange(len(pool))))
                nodes.append(node)
            spec["nodes"] = nodes
    if spec.get("j_later") == "1":
        spec["N"] = min(spec["N"], 7)
    return spec


# ----------------------------------------------------------------------------- reference maths (numpy)


def qmom(np, M, a, b):
    p2 = (M * M - (a + b) ** 2) * (M * M - (a - b) ** 2)
    return np.sqrt(np.maximum(p2, 0.0)) / (2.0 * M)


def m2(np, p):
    return p[..., 0] ** 2 - np.sum(p[..., 1:] ** 2, axis=-1)


class StepCap(BaseException):
    """the simulated run exceeded its proposal budget (e.g. a refill loop that can never accept): no verdict"""


class Recorder:
    """Records every proposal batch of every PhaseSpaceGenerator (get_weight wrapper) and every uniform draw."""

    def __init__(self, spec):
        self.spec = spec
        self.batches = []  # dict(gen=serial, masses=[arrays], weight=array, rnd=array or None)
        self.gens = {}
        self.n_flatten = {}

    def gen_serial(self, g):
        k = id(g)
        if k not in self.gens:
            self.gens[k] = (len(self.gens), g)
        return self.gens[k][0]


def run_generator(spec, log):
    """executes the generator under the rng seam; returns (output, recorder)"""
    import numpy as np
    import tensorflow as tf

    import tf_pwa.phasespace as ph
    from sim.seams import rng_seam

    rec = Recorder(spec)
    orig_get_weight = ph.PhaseSpaceGenerator.get_weight
    pending = {}

    def get_weight(self, ms, importances=True):
        w = orig_get_weight(self, ms, importances=importances)
        b = {"gen": rec.gen_serial(self), "masses": [np.array(i) for i in ms], "weight": np.array(w), "rnd": None, "importances": importances, "u_mass": list(pending.get("u", []))}
        pending["u"] = []
        rec.batches.append(b)
        pending["b"] = b
        return w

    N = spec["N"]
    mode = spec.get("script", "iid")

    drawn = [0]

    def script(role, shape, idx, u):
        drawn[0] += int(np.prod(shape)) if len(shape) else 1
        if drawn[0] > 6_000_000:
            raise StepCap()
        if role == "flatten_mass":
            b = pending.get("b")
            out = None
            if b is not None and mode == "accept_j" and shape == b["weight"].shape:
                g = b["gen"]
                k = rec.n_flatten.get(g, 0)
                w = b["weight"]
                n = w.shape[0]
                # forced acceptances only among proposals an i.i.d. stream would accept with a sane probability
                # (force-accepting weight ~ 0 proposals produces near-degenerate kinematics with huge boosts)
                wz = np.where(np.isnan(w), 0.0, w)
                pos = np.nonzero(wz > 1e-3 * np.max(wz))[0] if wz.size else np.array([], dtype=int)
                if k == 0:
                    j = {"0": 0, "1": 1, "N-1": N - 1, "N": N, "N+1": N + 1, "half": N // 2}[spec.get("j_first", "half")]
                    want = max(0, min(j, len(pos)))
                    out = np.full(n, 1.0 - 2.0 ** -53)
                    out[pos[:want]] = 0.0
                else:
                    lt = spec.get("j_later", "all")
                    if lt == "all" or (lt == "0_then_all" and k >= 2):
                        out = np.zeros(n)
                    elif lt == "0_then_all":
                        out = np.full(n, 1.0 - 2.0 ** -53)
                    elif lt == "1":
                        out = np.full(n, 1.0 - 2.0 ** -53)
                        if len(pos):
                            out[pos[min(k, len(pos) - 1)]] = 0.0
                    else:
                        out = None
                rec.n_flatten[g] = k + 1
                log.count("fault.scripted_acceptance_batch")
            if b is not None:
                b["rnd"] = np.array(out if out is not None else u, dtype=np.float64).reshape(shape)
                pending["b"] = None
            return out
        if role == "generate_mass" and mode != "boundary":
            pending.setdefault("u", []).append(np.array(u))
        if mode == "boundary" and role in ("generate_mass", "generate_momentum_i"):
            # a quarter of the draws sit exactly on 0 or on 1-2^-53
            v = np.array(u)
            sel = (v * 8).astype(int) % 8
            v = np.where(sel == 0, 0.0, v)
            v = np.where(sel == 1, 1.0 - 2.0 ** -53, v)
            log.count("fault.boundary_draws")
            if role == "generate_mass":
                pending.setdefault("u", []).append(np.array(v))
            return v
        return None

    ph.PhaseSpaceGenerator.get_weight = get_weight
    try:
        with rng_seam(spec["rng_seed"], script=script) as src:
            kind = spec["kind"]
            if kind == "flat":
                var = spec.get("variant", "plain")
                caller_list = list(spec["mi"])
                g = ph.PhaseSpaceGenerator(spec["m0"], caller_list)
                if var == "list_reuse":
                    # a mass scan: the caller edits the list the generator was built from and builds the next
                    # generator from it; the first generator still describes ITS masses
                    caller_list[0] = caller_list[0] * 0.5
                    caller_list.reverse()
                    other = ph.PhaseSpaceGenerator(spec["m0"], caller_list)
                    log.count("probe.mass_list_edited_after_construction")
                if var == "cal_max":
                    # tighten the bound with the library's own maximiser first: weights must still be <= 1
                    g.cal_max_weight()
                    log.count("probe.cal_max_weight_used")
                    del rec.batches[:]
                    pending["u"] = []  # weights evaluated by the maximiser itself are not proposals
                    pending["b"] = None
                    out = g.generate(N)
                elif var == "cal_max_interrupted":
                    # the bound-tightening step is interrupted by an exception; the same generator is used afterwards:
                    # its acceptance weights must still be <= 1
                    from sim.seams import InjectedFault, LineTracer
                    import sys as _sys

                    tr = LineTracer(fire_at=5 + spec["rng_seed"] % 120, exc_type=InjectedFault)
                    try:
                        try:
                            with tr:
                                g.cal_max_weight()
                        finally:
                            _sys.settrace(None)
                        spec["_calmax_completed"] = True
                    except InjectedFault:
                        log.count("fault.cal_max_weight_interrupted")
                    except Exception as e:
                        log.ev("cal_max_raised", err=type(e).__name__)
                    del rec.batches[:]
                    pending["u"] = []
                    pending["b"] = None
                    out = g.generate(N)
                elif var == "fresh_after_importance":
                    # an importance proposal is installed on ONE generator object; a generator built afterwards for
                    # the same masses is a new object and must be flat again
                    from tf_pwa.generator.breit_wigner import BWGenerator

                    first = ph.ChainGenerator(spec["m0"], list(spec["mi"]))
                    g1 = first.gen[0]
                    if g1.mass_range:
                        lo, hi = g1.mass_range[0]
                        g1.mass_generator[0] = BWGenerator(0.5 * (lo + hi), 0.1 * (hi - lo), lo, hi)
                        first.generate(min(N, 7))
                        log.count("probe.importance_proposal_installed_on_earlier_generator")
                    del rec.batches[:]
                    pending["u"] = []
                    pending["b"] = None
                    rec.n_flatten.clear()
                    rec.gens.clear()
                    fresh = ph.ChainGenerator(spec["m0"], list(spec["mi"]))  # a NEW generator for the same masses
                    out = fresh.generate(N)
                elif var == "interrupted":
                    # a generation interrupted by an exception at a seeded line, then the same generator is used again
                    from sim.seams import InjectedFault, LineTracer
                    import sys as _sys

                    tr = LineTracer(fire_at=20 + spec["rng_seed"] % 400, exc_type=InjectedFault)
                    try:
                        try:
                            with tr:
                                g.generate(N)
                        finally:
                            _sys.settrace(None)
                    except InjectedFault:
                        log.count("fault.generation_interrupted")
                    del rec.batches[:]
                    pending["u"] = []
                    pending["b"] = None
                    rec.n_flatten.clear()
                    out = g.generate(N)
                elif var == "no_force":
                    out = g.generate(N, force=False)
                elif var == "weights":
                    wts, out = g.generate(N, flatten=False)
                    spec["_weights_returned"] = np.array(wts).tolist()
                else:
                    out = g.generate(N)
            elif kind == "chain":
                out = ph.generate_phsp(spec["m0"], to_tuple(spec["mi"]), N)
            elif kind == "gen_mc":
                from tf_pwa.applications import gen_mc

                out = gen_mc(spec["m0"], list(spec["mi"]), N)
            else:
                def after_cal_max():
                    log.count("probe.cal_max_weight_used")
                    del rec.batches[:]
                    pending["u"] = []
                    pending["b"] = None

                out = run_config(spec, N, after_cal_max)
            draws = src.calls
    finally:
        ph.PhaseSpaceGenerator.get_weight = orig_get_weight
    return out, rec, draws


def to_tuple(x):
    if isinstance(x, list):
        if len(x) == 2 and isinstance(x[0], (int, float)) and isinstance(x[1], list):
            return (x[0], tuple(to_tuple(i) for i in x[1]))
        return tuple(to_tuple(i) for i in x)
    return x


CARDS = {
    "plain": {
        "decay": {"A": [["R_BC", "D"], ["R_CD", "B"]], "R_BC": ["B", "C"], "R_CD": ["C", "D"]},
        "particle": {
            "$top": {"A": {"J": 0, "P": -1, "mass": 4.0}},
            "$finals": {"B": {"J": 0, "P": -1, "mass": 0.5}, "C": {"J": 0, "P": -1, "mass": 0.6}, "D": {"J": 0, "P": -1, "mass": 0.3}},
            "R_BC": {"J": 1, "P": -1, "mass": 2.0, "width": 0.1},
            "R_CD": {"J": 1, "P": -1, "mass": 1.5, "width": 0.1},
        },
    },
    "plain4": {
        "decay": {"A": [["R_BCD", "E"], ["R_CDE", "B"]], "R_BCD": [["R_BC", "D"]], "R_CDE": [["R_DE", "C"]], "R_BC": ["B", "C"], "R_DE": ["D", "E"]},
        "particle": {
            "$top": {"A": {"J": 0, "P": 1, "mass": 5.0}},
            "$finals": {"B": {"J": 0, "P": 1, "mass": 0.5}, "C": {"J": 0, "P": 1, "mass": 0.14}, "D": {"J": 0, "P": 1, "mass": 0.3}, "E": {"J": 0, "P": 1, "mass": 0.9}},
            "R_BCD": {"J": 0, "P": 1, "mass": 3.0, "width": 0.2},
            "R_CDE": {"J": 0, "P": 1, "mass": 3.2, "width": 0.2},
            "R_BC": {"J": 0, "P": 1, "mass": 1.2, "width": 0.1},
            "R_DE": {"J": 0, "P": 1, "mass": 1.6, "width": 0.1},
        },
    },
    "one_R_BC": {
        "decay": {"A": [["R_BC", "D"]], "R_BC": ["B", "C"]},
        "particle": {
            "$top": {"A": {"J": 0, "P": -1, "mass": 4.0}},
            "$finals": {"B": {"J": 0, "P": -1, "mass": 0.5}, "C": {"J": 0, "P": -1, "mass": 0.6}, "D": {"J": 0, "P": -1, "mass": 0.3}},
            "R_BC": {"J": 1, "P": -1, "mass": 2.0, "model": "one"},
        },
    },
    "two_one_nodes": {
        "decay": {"A": [["R1", "E"]], "R1": [["R2", "D"]], "R2": ["B", "C"]},
        "particle": {
            "$top": {"A": {"J": 0, "P": 1, "mass": 5.0}},
            "$finals": {"B": {"J": 0, "P": 1, "mass": 0.5}, "C": {"J": 0, "P": 1, "mass": 0.14}, "D": {"J": 0, "P": 1, "mass": 0.14}, "E": {"J": 0, "P": 1, "mass": 0.5}},
            "R1": {"J": 0, "P": 1, "mass": 3.0, "model": "one"},
            "R2": {"J": 0, "P": 1, "mass": 1.2, "model": "one"},
        },
    },
}


def run_config(spec, N, after_cal_max=None):
    from tf_pwa.config_loader import ConfigLoader

    config = ConfigLoader(copy.deepcopy(CARDS[spec["card"]]))
    if spec.get("nodes") is not None or spec.get("variant") == "cal_max":
        # what generate_phsp_p(N, cal_max=...) does, with the nodes= keyword of the generator factory
        gen = config.get_phsp_p_generator(nodes=[list(n) for n in spec["nodes"]]) if spec.get("nodes") is not None else config.get_phsp_p_generator()
        if spec.get("variant") == "cal_max":
            gen.cal_max_weight()
            if after_cal_max:
                after_cal_max()  # weights evaluated by the maximiser itself are not proposals
        p = gen.generate(N)
    else:
        p = config.generate_phsp_p(N)
    return {str(k): v for k, v in p.items()}


# ----------------------------------------------------------------------------- oracle


def flatten_tree(np, out):
    if isinstance(out, (list, tuple)):
        r = []
        for i in out:
            r += flatten_tree(np, i)
        return r
    return [np.array(out)]


def check_tree(np, log, out, struct_mi, m0, N, tol_scale, path="top"):
    """out mirrors struct_mi; returns total 4-momentum of this node; checks node masses recursively"""
    tot = None
    for i, (o, s) in enumerate(zip(out, struct_mi)):
        if isinstance(s, list):  # [m_node, children]
            sub = check_tree(np, log, o, s[1], s[0], N, tol_scale, path + "/%d" % i)
            mm = m2(np, sub)
            if not np.all(np.abs(mm - s[0] ** 2) <= 1e-10 * tol_scale**2):
                log.fail("node-mass", "chain|node-mass", "daughters of nested node %s (mass %r) have invariant mass^2 off by %.3g" % (path + "/%d" % i, s[0], float(np.max(np.abs(mm - s[0] ** 2)))))
                raise StopIteration
            p = sub
        else:
            p = np.array(o)
            if p.shape != (N, 4):
                log.fail("count", "chain|count", "particle %s/%d has shape %s, requested N=%d" % (path, i, p.shape, N))
                raise StopIteration
            mm = m2(np, p)
            if not np.all(np.abs(mm - s * s) <= 1e-11 * tol_scale**2):
                log.fail("on-shell", "chain|on-shell", "particle %s/%d (mass %r): |E^2-p^2-m^2| up to %.3g" % (path, i, s, float(np.max(np.abs(mm - s * s)))))
                raise StopIteration
        tot = p if tot is None else tot + p
    return tot


def check_flat_identity(np, log, spec, rec, kindkey):
    """weight*g/f constant per generator; weights in [0,1]"""
    per_gen = {}
    for b in rec.batches:
        per_gen.setdefault(b["gen"], []).append(b)
    for gser, bs in per_gen.items():
        g = [v for k, v in rec.gens.items() if v[0] == gser][0][1]
        m0 = float(g.m0)
        mm = [float(x) for x in g.m_mass]
        n = len(mm)
        ratios = []
        for b in bs:
            w = b["weight"]
            if w.size == 0:
                continue
            if np.any(np.isnan(w)):
                # 0/0 at an exactly degenerate proposal (e.g. two massless daughters at M=0): never accepted
                # (NaN > rnd is False); emitted events are checked for NaN by the on-shell clause
                log.count("probe.nan_weight_proposal_rejected", int(np.sum(np.isnan(w))))
                fin = ~np.isnan(w)
                w = np.where(fin, w, 0.0)
            # the property bounds the weight from ABOVE (a weight above one cannot be unweighted).  Below zero only
            # rounding dust is tolerated (observed: -2.6e-64 for a massless daughter at a boundary draw): such a
            # proposal is simply never accepted; a weight that is really negative would be a wrong break-up momentum
            if np.any((w < 0.0) & (w >= -1e-30)):
                log.count("probe.negative_rounding_dust_weight", int(np.sum((w < 0.0) & (w >= -1e-30))))
            if not (np.all(w <= 1.0 + 1e-12) and np.all(w >= -1e-30)):
                sfx = "|after-cal_max_weight" if (spec.get("variant") == "cal_max" or spec.get("_calmax_completed")) else ""
                log.fail("weight-bound", "%s|weight-bound%s" % (kindkey, sfx), "acceptance weight outside [0,1]: max %.17g min %.3g (m0=%r, masses=%r)%s" % (float(np.max(w)), float(np.min(w)), m0, mm, "; the bound had been tightened by cal_max_weight()" if sfx else ""))
                return False
            ms = b["masses"]
            # reference: kinematic limits and densities, independently of the library
            # chain masses: mass_t = [m_last, M_0, M_1, ..., m0]; M_i = mass of the last i+2 daughters
            prev = np.full(w.shape, mm[-1])
            f = np.ones(w.shape)
            ginv = np.ones(w.shape)
            inside = np.ones(w.shape, dtype=bool)  # proposals well inside the kinematic region (no cancellation in q)
            um = b.get("u_mass") or []
            for i in range(n - 2):
                a = prev + mm[-i - 2]
                bnd = m0 - sum(mm[: n - i - 2])
                Mi = ms[i]
                # the proposal itself: drawn uniformly between its kinematic limits from the delivered uniform
                if len(um) == n - 2 and um[i].shape == Mi.shape:
                    want = (bnd - a) * um[i] + a
                    if not np.allclose(Mi, want, rtol=1e-12, atol=1e-12 * m0):
                        log.fail("proposal-uniform", "%s|proposal-not-uniform" % kindkey, "intermediate mass %d of the %d-body generator (m0=%r) is not (b-a)*u+a for the delivered uniform u: the proposals are not drawn from the flat proposal density the weight assumes" % (i, n, m0))
                        return False
                elif b.get("u_mass") is not None and len(um) != n - 2 and w.size:
                    log.fail("proposal-uniform", "%s|proposal-not-uniform" % kindkey, "the %d-body generator (m0=%r) consumed %d uniform mass draws for a batch instead of %d: some intermediate mass is proposed by something else than the flat proposal" % (n, m0, len(um), n - 2))
                    return False
                qi = qmom(np, Mi, prev, mm[-i - 2])
                f = f * qi
                inside &= (qi > 1e-3 * m0) & (bnd - a > 1e-3 * m0)
                ginv = ginv * np.maximum(bnd - a, 0.0)
                prev = Mi
            qt = qmom(np, m0, prev, mm[0])
            f = f * qt
            inside &= qt > 1e-3 * m0
            if not b.get("importances", True):
                continue
            ok = inside & np.isfinite(f) & (f > 0)
            if np.any(ok):
                # w * g / f  with g = 1/ginv
                ratios.append((w[ok] / (ginv[ok] * f[ok]), w[ok]))
        if ratios:
            r = np.concatenate([x[0] for x in ratios])
            r = r[np.isfinite(r) & (r > 0)]
            if r.size >= 2:
                spread = float((np.max(r) - np.min(r)) / np.max(r))
                log.ev("flat", gen=gser, n=n, spread_ok=spread <= 1e-9)
                log.count("probe.flatness_identity_evaluated")
                if spread > 1e-9:
                    log.fail("flat-identity", "%s|flat-identity|n=%s" % (kindkey, "2-4" if n <= 4 else "5+"), "weight*g/f is not constant over the proposals of the %d-body generator (m0=%r, masses=%r): relative spread %.3g" % (n, m0, mm, spread))
                    return False
    return True


def execute(spec):
    import numpy as np

    from sim.env import Log

    log = Log(seed=spec.get("rng_seed"), prop="C10")
    N = spec["N"]
    kind = spec["kind"]
    try:
        out, rec, draws = run_generator(spec, log)
    except StepCap:
        # bounded runs: a generator that keeps proposing without ever accepting is cut off; termination is not
        # part of C10 (with cal_max_weight this is the recorded finding showing up as a starved refill loop)
        log.count("probe.step_cap_reached_no_verdict")
        res = log.result(spec=spec, nontrivial=False)
        res["opkinds"] = {kind + ".capped": 1}
        return res
    except Exception as e:
        import traceback

        tb = traceback.extract_tb(e.__traceback__)
        if "/verif/" in tb[-1].filename:
            raise
        log.ev("raised", err=type(e).__name__, msg=str(e)[:200])
        log.count("probe.library_raised")
        # every generated mass set / structure / card is valid (positive Q-value): a generator that raises
        # delivers no events at all
        sfx = "|after-cal_max_weight" if (spec.get("variant") == "cal_max" or spec.get("_calmax_completed")) else ""
        log.fail("count", "%s|raised|%s%s" % (kind, type(e).__name__, sfx), "the generator raised %s: %s (at %s:%d) instead of delivering %d events" % (type(e).__name__, str(e)[:160], os.path.basename(tb[-1].filename), tb[-1].lineno, spec["N"]))
        res = log.result(spec=spec, nontrivial=False)
        res["opkinds"] = {kind: 1}
        return res
    nbatch = len(rec.batches)
    refill = max([0] + [sum(1 for b in rec.batches if b["gen"] == g) - 1 for g in set(b["gen"] for b in rec.batches)])
    if refill > 0:
        log.count("probe.refill_loop_entered", refill)
    if any(b["rnd"] is not None and b["weight"].size and not np.any(b["weight"] > b["rnd"]) for b in rec.batches):
        log.count("probe.batch_with_zero_accepted")
    log.ev("run", kind=kind, N=N, batches=nbatch, draws=draws)
    try:
        if kind in ("flat", "gen_mc"):
            m0, mi = spec["m0"], spec["mi"]
            n = len(mi)
            if kind == "gen_mc":
                arr = np.array(out)
                if arr.shape != (N * n, 4):
                    log.fail("count", "gen_mc|count", "gen_mc returned shape %s for N=%d, n=%d" % (arr.shape, N, n))
                    raise StopIteration
                ps = [arr[i::n] for i in range(n)]
            else:
                ps = [np.array(p) for p in out]
            var = spec.get("variant", "plain") if kind == "flat" else "plain"
            if var == "no_force" and len(ps) == n and all(p.shape == ps[0].shape and p.ndim == 2 and p.shape[1] == 4 for p in ps):
                # without `force` the first batch is returned as it is: any number of events, all physical
                N = ps[0].shape[0]
                if N == 0:
                    log.count("probe.no_force_returned_no_event")
                    raise StopIteration
            if var == "weights":
                w = np.array(spec.pop("_weights_returned"))
                wf = np.where(np.isnan(w), 0.0, w)
                if (w.shape != (N,) and w.shape != ()) or np.any(wf > 1 + 1e-12) or np.any(wf < 0):
                    log.fail("weight-bound", "flat|returned-weights", "generate(flatten=False) returned weights outside [0,1] or of the wrong length", )
                    raise StopIteration
                if w.shape == (N,):
                    # weighted proposals: only those with a positive weight are events (an exactly degenerate
                    # proposal has weight 0 or 0/0 and undefined momenta)
                    keep = wf > 0
                    ps = [p[keep] for p in ps]
                    N = int(keep.sum())
                    if N == 0:
                        raise StopIteration
            if len(ps) != n or any(p.shape != (N, 4) for p in ps):
                log.fail("count", "%s|count" % kind, "requested N=%d events of %d bodies, got shapes %s (script %s/%s/%s)" % (N, n, [p.shape for p in ps], spec.get("script"), spec.get("j_first"), spec.get("j_later")))
                raise StopIteration
            for p, m in zip(ps, mi):
                mm = m2(np, p)
                if not np.all(np.abs(mm - m * m) <= 1e-11 * m0 * m0):
                    log.fail("on-shell", "%s|on-shell" % kind, "daughter of mass %r: |E^2-p^2-m^2| up to %.3g (m0=%r)" % (m, float(np.max(np.abs(mm - m * m))), m0))
                    raise StopIteration
            tot = sum(ps)
            dE = float(np.max(np.abs(tot[:, 0] - m0)))
            dp = float(np.max(np.abs(tot[:, 1:])))
            # after cal_max_weight() the (too tight, recorded finding) bound lets near-degenerate proposals through
            # - an intermediate pair of massless daughters at almost zero invariant mass, boosted with a huge
            # gamma - whose rounding error is a few 1e-9 relative (observed 1.3e-9); such proposals are rejected
            # with the regular bound.  Tolerance 1e-7 in those sessions only.
            ctol = 1e-7 if (spec.get("variant") in ("cal_max", "cal_max_interrupted") or spec.get("_calmax_completed")) else 1e-9
            if not (dE <= ctol * m0 and dp <= ctol * m0):
                log.fail("momentum-conservation", "%s|momentum-conservation" % kind, "momenta do not add up to the parent at rest: |sum E - m0| = %.3g, |sum p| = %.3g (m0=%r, masses=%r)" % (dE, dp, m0, mi))
                raise StopIteration
            # exactly-once / order: emitted event r comes from the r-th accepted proposal
            if var in ("plain", "cal_max", "interrupted", "cal_max_interrupted", "fresh_after_importance", "list_reuse") and n >= 3 and rec.batches and all(b["rnd"] is not None for b in rec.batches):
                acc = [[] for _ in range(n - 2)]
                for b in rec.batches:
                    sel = b["weight"] > b["rnd"]
                    for i in range(n - 2):
                        acc[i].append(b["masses"][i][sel])
                acc = [np.concatenate(a) for a in acc]
                if acc[0].shape[0] < N:
                    log.fail("exactly-once", "%s|exactly-once" % kind, "only %d proposals passed their acceptance test but %d events were emitted" % (acc[0].shape[0], N))
                    raise StopIteration
                for i in range(n - 2):
                    tail = sum(ps[n - i - 2 :])
                    Mi = np.sqrt(np.maximum(m2(np, tail), 0.0))
                    if not np.allclose(Mi, acc[i][:N], rtol=0, atol=1e-8 * m0):
                        bad = int(np.argmax(np.abs(Mi - acc[i][:N])))
                        log.fail("exactly-once", "%s|exactly-once" % kind, "emitted event %d is not built from the %d-th accepted proposal (intermediate mass %r vs accepted %r)" % (bad, bad, float(Mi[bad]), float(acc[i][bad])))
                        raise StopIteration
                log.count("probe.order_checked")
            check_flat_identity(np, log, spec, rec, kind)
        elif kind == "chain":
            tot = check_tree(np, log, out, spec["mi"], spec["m0"], N, spec["m0"])
            m0 = spec["m0"]
            dE = float(np.max(np.abs(tot[:, 0] - m0)))
            dp = float(np.max(np.abs(tot[:, 1:])))
            if not (dE <= 1e-9 * m0 and dp <= 1e-9 * m0):
                log.fail("momentum-conservation", "chain|momentum-conservation", "nested chain: final momenta do not add up to the parent at rest: |sum E - m0| = %.3g, |sum p| = %.3g" % (dE, dp))
                raise StopIteration
            check_flat_identity(np, log, spec, rec, "chain")
        else:
            card = CARDS[spec["card"]]
            fin = card["particle"]["$finals"]
            m0 = card["particle"]["$top"]["A"]["mass"]
            ps = {}
            for k, v in out.items():
                ps[k] = np.array(v)
            if sorted(ps) != sorted(fin) or any(p.shape != (N, 4) for p in ps.values()):
                log.fail("count", "config|count", "generate_phsp_p(N=%d) returned %s" % (N, {k: p.shape for k, p in ps.items()}))
                raise StopIteration
            for k, p in ps.items():
                m = fin[k]["mass"]
                mm = m2(np, p)
                if not np.all(np.abs(mm - m * m) <= 1e-11 * m0 * m0):
                    log.fail("on-shell", "config|on-shell", "particle %s: |E^2-p^2-m^2| up to %.3g" % (k, float(np.max(np.abs(mm - m * m)))))
                    raise StopIteration
            tot = sum(ps.values())
            dE = float(np.max(np.abs(tot[:, 0] - m0)))
            dp = float(np.max(np.abs(tot[:, 1:])))
            if not (dE <= 1e-9 * m0 and dp <= 1e-9 * m0):
                log.fail("momentum-conservation", "config|momentum-conservation", "config %s: |sum E - m0| = %.3g, |sum p| = %.3g" % (spec["card"], dE, dp))
                raise StopIteration
            # fixed-mass nodes declared with model: one
            nodes = {"one_R_BC": [("R_BC", ["B", "C"], 2.0)], "two_one_nodes": [("R2", ["B", "C"], 1.2), ("R1", ["B", "C", "D"], 3.0)]}.get(spec["card"], [])
            for name, ds, mr in nodes:
                mm = m2(np, sum(ps[d] for d in ds))
                if not np.all(np.abs(mm - mr * mr) <= 1e-10 * m0 * m0):
                    log.fail("node-mass", "config|node-mass", "fixed-mass node %s: invariant mass^2 of its daughters off by %.3g" % (name, float(np.max(np.abs(mm - mr * mr)))))
                    raise StopIteration
            check_flat_identity(np, log, spec, rec, "config")
    except StopIteration:
        pass
    log.ev("out", digest=[np.array(x) for x in flatten_tree(np, list(out.values()) if isinstance(out, dict) else out)][:8])
    nontrivial = refill > 0 or spec.get("script") != "iid" or kind in ("chain", "config")
    res = log.result(spec=spec, nontrivial=nontrivial)
    res["opkinds"] = {kind: 1, "script." + spec.get("script", "iid"): 1}
    return res


def run(job):
    spec = job["spec"] if job.get("mode") == "spec" else generate(job)
    return execute(spec)


def shrink_candidates(spec):
    for N in (1, 2, 7):
        if spec.get("N", 0) > N:
            s = copy.deepcopy(spec)
            s["N"] = N
            yield s
    if spec.get("script") != "iid":
        s = copy.deepcopy(spec)
        s["script"] = "iid"
        yield s
    if spec["kind"] in ("flat", "gen_mc") and len(spec.get("mi", [])) > 2:
        for i in range(len(spec["mi"])):
            s = copy.deepcopy(spec)
            del s["mi"][i]
            yield s

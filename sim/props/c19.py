"""C19 — a configuration determines the model deterministically and completely.

Simulated session: a history of 4..9 loads in ONE process - the card itself repeatedly, equivalent
variants (aliases, $include through share_dict and through a file, permuted key order, candidate lists
expanded by hand), OTHER cards that reuse the same particle names with different quantum numbers in
between, a load that fails half-way (exception seam), export -> load - and the same schedule under
several PYTHONHASHSEED values in separate interpreters (cross-checked by the parent).
Oracles: identical canonical observation for every load of the same card; variants give the same chain
set / quantum numbers / (l,s) lists / parameter names and the same density; export -> load reproduces
chains (as a multiset) and quantum numbers; and a reference enumerator written in the harness (tree
expansion over candidate lists + angular-momentum/parity rule) must accept exactly the chains present.
"""
import copy
import hashlib
import json
import os
from fractions import Fraction

from sim import cards
from sim.prng import Stream

RULE = (
    "sessions are generated from the seed: a decay card over the grammar (3-/4-body, integer and half-integer spins, candidate lists per resonance "
    "slot with random J^P incl. forbidden ones, p_break), and a history of loads (same card, alias / include / permuted / expanded variants, other "
    "cards with the same particle names, a failing load, export->load). Non-trivial = >= 3 loads incl. >= 1 variant or foreign card between two "
    "loads of the card; distinct = distinct event-log digests. 30 schedules are executed under two hash seeds and compared by the parent."
)
JPS = [(0, 1), (0, -1), (1, 1), (1, -1), (2, 1), (2, -1)]


def plan(tier, seed):
    n = 150 if tier == "quick" else 6000
    npair = 30 if tier == "quick" else 400
    jobs = []
    for i in range(n):
        jobs.append({"mode": "seed", "seed": seed * 1000003 + i})
    for i in range(npair):
        # the same schedule again under a different hash seed (pinned), compared in cross_check
        jobs.append({"mode": "seed", "seed": seed * 1000003 + i, "hashseed": 5 + (i % 3), "pair": True})
        jobs[i]["hashseed"] = 0
        jobs[i]["pair"] = True
    return {
        "jobs": jobs,
        "timeout": 200,
        "budget_s": 100 if tier == "quick" else 2400,
        "level": "exploration",
        "rule": RULE,
        "min_executed": 40,
        "shrink_s": 90,
        "hashseeds": [0, 1, 2, 3, 5, 6, 7],
        "real_vs_stub": {
            "real": "ConfigLoader / DecayConfig (aliases, $include, candidate lists, cuts), particle/decay classes with their name-keyed caches, VarsManager set-up, amplitude evaluation",
            "simulated": "load history inside one process (which cards were loaded before), a load interrupted by an injected exception, PYTHONHASHSEED, events from the rng seam",
            "stub": "none; the reference enumerator is ~60 lines of harness code",
        },
        "assumptions": [
            "values drawn at random by the library (initial parameter values, fix_chain_val) are excluded from the observation",
            "equivalent variants are compared as chain SETS (their declaration order differs by construction), repeated loads as ordered lists",
        ],
    }


# ------------------------------------------------------------------------------------- generation


def gen_card(rs):
    """card with candidate lists; returns the compact form (with lists)"""
    kind = rs.weighted([("S3", 5), ("V3", 2), ("H3", 1), ("C4", 2)])
    card = cards.make_card(rs, kind)
    card.pop("_kind", None)
    card["_kind"] = kind
    if kind == "S3":
        slots = [k for k in list(card["particle"]) if k.startswith("R_")]
        for s in slots:
            if rs.chance(0.6):
                base = card["particle"].pop(s)
                names = []
                for j in range(rs.randint(1, 3)):
                    J, P = rs.choice(JPS)
                    nm = "%s%s" % (s.replace("R_", "X"), "abc"[j])
                    card["particle"][nm] = {"J": J, "P": P, "mass": round(base["mass"] + 0.05 * j, 3), "width": base["width"]}
                    names.append(nm)
                card["particle"][s] = names
        if rs.chance(0.4):
            # a weak decay at the top: parity is not conserved there
            # (declared per decay: for all decays of A, for the first one only, or for a seeded subset)
            how = rs.choice(["all", "first", "first", "subset"])
            if rs.chance(0.6):
                # one final-state particle of the other parity: now the top decay of every chain is parity
                # violating exactly when the resonance decay is parity conserving - p_break decides the chain
                card["particle"]["$finals"]["D"]["P"] = 1
            card["decay"]["A"] = [d + [{"p_break": True}] if (how == "all" or (how == "first" and i == 0) or (how == "subset" and rs.chance(0.5))) else d for i, d in enumerate(card["decay"]["A"])]
        if rs.chance(0.5):
            # options shared by all decays of the top particle, declared once on the particle
            card["particle"]["$top"]["A"]["decay_params"] = {"barrier_factor_norm": rs.chance(0.5)}
    if kind in ("S3", "V3") and rs.chance(0.5):
        # a decay lists its two daughters in either order
        for core in list(card["decay"]):
            v = card["decay"][core]
            if v and all(isinstance(x, list) for x in v):
                card["decay"][core] = [([d[1], d[0]] + d[2:]) if rs.chance(0.5) else d for d in v]
            elif len(v) >= 2 and all(isinstance(x, str) for x in v[:2]) and rs.chance(0.5):
                card["decay"][core] = [v[1], v[0]] + v[2:]
    if kind in ("S3", "V3") and rs.chance(0.5):
        # constraints declared in the card: floating mass with a range, fixed chain, Gaussian constraint
        res = [k for k, v in card["particle"].items() if isinstance(v, dict) and k.startswith(("R_", "X")) and "mass" in v]
        if res:
            r = rs.choice(res)
            card["particle"][r]["float"] = rs.choice(["m", "mg", "g"])
            lo_, hi_ = round(card["particle"][r]["mass"] - 0.2, 3), round(card["particle"][r]["mass"] + 0.2, 3)
            if "m" in card["particle"][r]["float"] and rs.chance(0.4):
                # the other documented way of declaring the same range: constrains: var_range
                card.setdefault("constrains", {}).setdefault("var_range", {})[r + "_mass"] = [lo_, hi_]
            else:
                card["particle"][r]["params"] = {"mass_min": lo_, "mass_max": hi_}
            if rs.chance(0.4) and "m" in card["particle"][r]["float"]:
                card["particle"][r]["gauss_constr"] = {"m": 0.05}
        card.setdefault("constrains", {})["decay"] = {"fix_chain_idx": 0, "fix_chain_val": 1.0}
        card["_tie"] = rs.chance(0.4)
    return card


def generate(job):
    rs = Stream(job["seed"], "C19")
    rm, rh = rs.child("model"), rs.child("hist")
    card = gen_card(rm)
    other = gen_card(rs.child("other"))
    # the foreign card reuses the particle names of the card with other quantum numbers
    foreign = copy.deepcopy(card)
    for k, v in foreign["particle"].items():
        if isinstance(v, dict) and (k.startswith("R_") or k.startswith("X")) and "J" in v and card.get("_kind") == "S3":
            J, P = rh.choice(JPS)
            v["J"], v["P"] = J, P
    steps = []
    if rh.chance(0.5):
        # other cards with the same particle names are loaded BEFORE the card is seen for the first time
        steps += [{"k": "foreign", "v": "", "pos": 1} for _ in range(rh.randint(1, 2))]
    steps.append({"k": "load", "v": "plain"})
    for _ in range(rh.randint(3, 8)):
        steps.append({"k": rh.weighted([("load", 3), ("variant", 5), ("foreign", 3), ("other", 1), ("fail", 1), ("export", 2), ("include_override", 2), ("fail_retry", 1.5), ("stale_file", 1.5)]), "v": rh.choice(["alias", "include_dict", "include_file", "permuted", "expanded"]), "pos": rh.randint(1, 400)})
    steps.append({"k": "load", "v": "plain"})
    return {"card": card, "foreign": foreign, "other": other, "steps": steps, "data_seed": rs.randrange(1 << 30), "n": 5}


# ------------------------------------------------------------------------------------- variants


def v_alias(card):
    c = copy.deepcopy(card)

    def ren(d):
        out = {}
        for k, v in d.items():
            out[{"mass": "m0", "width": "g0", "P": "Par"}.get(k, k)] = v
        return out

    for k, v in list(c["particle"].items()):
        if isinstance(v, dict) and not k.startswith("$"):
            c["particle"][k] = ren(v)
    return c, {}


def v_permuted(card):
    c = copy.deepcopy(card)
    c["particle"] = dict(reversed(list(c["particle"].items())))
    for k, v in list(c["particle"].items()):
        if isinstance(v, dict) and not k.startswith("$"):
            c["particle"][k] = dict(reversed(list(v.items())))
    return {k: c[k] for k in reversed(list(c.keys()))}, {}


def v_include(card, how, scratch):
    c = copy.deepcopy(card)
    inc = {}
    for k in list(c["particle"]):
        if isinstance(c["particle"][k], dict) and not k.startswith("$") and len(inc) < 2:
            inc[k] = c["particle"].pop(k)
    if how == "include_dict":
        c["particle"]["$include"] = "shared_particles"
        return c, {"shared_particles": inc}
    fn = os.path.join(scratch, "inc_%s.yml" % hashlib.sha256(json.dumps(inc, sort_keys=True).encode()).hexdigest()[:8])
    import yaml

    with open(fn, "w") as f:
        yaml.safe_dump(inc, f)
    c["particle"]["$include"] = fn
    return c, {}


def v_expanded(card):
    """candidate lists written out by hand"""
    c = copy.deepcopy(card)
    lists = {k: v for k, v in c["particle"].items() if isinstance(v, list)}
    for k in lists:
        del c["particle"][k]
    newdecay = {}
    for core, outs in c["decay"].items():
        decs = outs if all(isinstance(i, list) for i in outs) else [outs]
        for core_i in lists.get(core, [core]):
            for d in decs:
                parts = [x for x in d if not isinstance(x, dict)]
                extra = [x for x in d if isinstance(x, dict)]
                # expand every placeholder among the daughters
                combos = [[]]
                for pname in parts:
                    combos = [cc + [alt] for cc in combos for alt in lists.get(pname, [pname])]
                for cc in combos:
                    newdecay.setdefault(core_i, []).append(cc + extra)
    c["decay"] = newdecay
    return c, {}


# ------------------------------------------------------------------------------------- reference enumerator


def half(x):
    if isinstance(x, str) and "/" in x:
        a, b = x.split("/")
        return Fraction(int(a), int(b))
    return Fraction(x)


def allowed(ja, pa, jb, pb, jc, pc, p_break):
    s = abs(jb - jc)
    while s <= jb + jc:
        l = abs(ja - s)
        while l <= ja + s:
            if l.denominator == 1:
                if p_break or pa is None or pa == pb * pc * (-1) ** int(l):
                    return True
            l += 1
        s += 1
    return False


def ref_ls(ja, pa, jb, pb, jc, pc, p_break):
    """all (l, s) couplings of a -> b c: |jb-jc| <= s <= jb+jc, |ja-s| <= l <= ja+s, l integer, parity"""
    out = []
    s = abs(jb - jc)
    while s <= jb + jc:
        l = abs(ja - s)
        while l <= ja + s:
            if l.denominator == 1 and (p_break or pa is None or pa == pb * pc * (-1) ** int(l)):
                out.append((str(l), str(s)))
            l += 1
        s += 1
    return sorted(out)


def ref_chains(card):
    """expected chains: frozenset of (core, sorted outs) per chain, from tree expansion + selection rule"""
    c, _ = v_expanded(card)
    part = {}
    for k, v in c["particle"].items():
        if k in ("$top", "$finals"):
            part.update(v)
        elif isinstance(v, dict):
            part[k] = v
    top = list(c["particle"]["$top"])[0]
    finals = set(c["particle"]["$finals"])
    decs = {}
    for core, outs in c["decay"].items():
        for d in outs:
            parts = [x for x in d if not isinstance(x, dict)]
            prm = {}
            for x in d:
                if isinstance(x, dict):
                    prm.update(x)
            decs.setdefault(core, []).append((parts, bool(prm.get("p_break", False))))

    def qn(n):
        p = part[n]
        return half(p.get("J", 0)), p.get("P", p.get("Par"))

    def expand(name):
        """list of (set of decays, ok) for the sub-tree below `name`"""
        if name in finals:
            return [(frozenset(), True)]
        out = []
        for parts, pb in decs.get(name, []):
            ja, pa = qn(name)
            (jb, pb_), (jc, pc_) = qn(parts[0]), qn(parts[1])
            ok = allowed(ja, pa, jb, pb_, jc, pc_, pb)
            subs = [(frozenset(), True)]
            for pn in parts:
                subs = [(a | b, oa and ob) for a, oa in subs for b, ob in expand(pn)]
            for s, so in subs:
                out.append((s | {(name, tuple(sorted(parts)))}, ok and so))
        return out

    allowed_set, forbidden_set = [], []
    for s, ok in expand(top):
        (allowed_set if ok else forbidden_set).append(s)
    return allowed_set, forbidden_set


# ------------------------------------------------------------------------------------- observation


def observe(cfg):
    dg = cfg.get_decay()
    amp = cfg.get_amplitude()
    chains = []
    canon = []
    ls = {}
    qn = {}
    for ch in dg:
        chains.append(str(ch))
        cs = set()
        for d in ch:
            cs.add((str(d.core), tuple(sorted(str(o) for o in d.outs))))
            ls[str(d)] = [[str(a) for a in x] for x in d.get_ls_list()]
            for p in [d.core] + list(d.outs):
                qn[str(p)] = [str(p.J), str(p.P)]
        canon.append(sorted(cs))
    vm = amp.vm
    obs = {
        "chains": chains,
        "canon": canon,
        "ls": ls,
        "qn": qn,
        "trainable": list(vm.trainable_vars),
        "fixed": sorted(n for n in vm.variables if n not in vm.trainable_vars),
        "ties": sorted(sorted(str(x) for x in l) for l in vm.same_list),
        "bounds": sorted((k, list(v)) for k, v in cfg.bound_dic.items()),
        "gauss": gauss(cfg),
    }
    return obs


def build(card, share=None):
    from tf_pwa.config_loader import ConfigLoader

    from sim.seams import rng_seam

    c = {k: v for k, v in copy.deepcopy(card).items() if not k.startswith("_")}
    with rng_seam(4242):
        cfg = ConfigLoader(c, share_dict=share or {})
        cfg.get_amplitude()
    return cfg


def gauss(cfg):
    return sorted((k, [float(x) for x in v]) for k, v in getattr(cfg, "gauss_constr_dic", {}).items())


class Failure(Exception):
    pass


def execute(spec):
    import numpy as np

    from sim.env import Log, Scratch
    from sim.seams import InjectedFault, LineTracer, rng_seam

    log = Log(seed=spec.get("data_seed"), prop="C19")
    card = spec["card"]
    if card.get("_tie"):
        # a tie between two free magnitudes, declared in the card (names resolved from a preliminary load)
        try:
            pre = build(card)
            vm0 = pre.get_amplitude().vm
            mags = sorted(n for n in vm0.trainable_vars if n.endswith("_total_0r"))
            if len(mags) >= 2:
                card = copy.deepcopy(card)
                card.setdefault("constrains", {})["var_equal"] = [[mags[0], mags[1]]]
        except Exception:
            pass
    base_obs = None
    base_cfg = None
    nloads = 0
    between = 0
    nontrivial = False
    try:
        with Scratch("c19") as scratch:
            for i, st in enumerate(spec["steps"]):
                k = st["k"]
                log.count("op." + k + ("." + st["v"] if k == "variant" else ""))
                if k == "load":
                    try:
                        cfg = build(card)
                    except RuntimeError as e:
                        if "not decay chain" not in str(e):
                            raise
                        allowed_set, _ = ref_chains(card)
                        if allowed_set:
                            log.fail("allowed-chain-present", "load|refused-although-allowed", "the loader found no decay chain although the reference enumerator allows %d" % len(allowed_set), step=i)
                            raise Failure()
                        log.count("probe.card_without_allowed_chain_refused")
                        break
                    except Exception as e:
                        import traceback

                        tb = traceback.extract_tb(e.__traceback__)
                        if "/verif/" in tb[-1].filename:
                            raise
                        log.fail("same-card-same-model", "load|raised|%s" % type(e).__name__, "loading the card raised %s: %s (after %d other loads)" % (type(e).__name__, str(e)[:200], between), step=i)
                        raise Failure()
                    obs = observe(cfg)
                    nloads += 1
                    if True:
                        # ---- reference enumerator (every load of the card, whatever was loaded before)
                        allowed_set, forbidden_set = ref_chains(card)
                        got = [frozenset((a, tuple(b)) for a, b in c) for c in obs["canon"]]
                        for s in allowed_set:
                            if got.count(s) != 1:
                                log.fail("allowed-chain-present", "load|allowed-chain-%s" % ("missing" if got.count(s) == 0 else "duplicated"), "chain %s is allowed by the selection rules and declared, but occurs %d times in the model" % (sorted(s), got.count(s)), step=i)
                                raise Failure()
                        for s in got:
                            if s not in allowed_set:
                                log.fail("forbidden-chain-absent", "load|chain-not-allowed", "the model contains chain %s which the reference enumerator does not allow (forbidden by selection rules or not declared)" % (sorted(s),), step=i)
                                raise Failure()
                        if forbidden_set:
                            log.count("probe.card_with_forbidden_chain")
                        # ---- (l,s) couplings of every decay of the model: exactly those the selection rules allow
                        ec, _ = v_expanded(card)
                        part_ = {}
                        for pk, pv in ec["particle"].items():
                            if pk in ("$top", "$finals"):
                                part_.update(pv)
                            elif isinstance(pv, dict):
                                part_[pk] = pv
                        pbreak = {}
                        for core_, outs_ in ec["decay"].items():
                            for d_ in outs_ if all(isinstance(x, list) for x in outs_) else [outs_]:
                                names_ = tuple(sorted(x for x in d_ if not isinstance(x, dict)))
                                pbreak[(core_, names_)] = any(isinstance(x, dict) and x.get("p_break") for x in d_)
                        for ch in cfg.get_decay():
                            for d_ in ch:
                                key_ = (str(d_.core), tuple(sorted(str(o) for o in d_.outs)))
                                if key_ not in pbreak or any(str(x) not in part_ for x in [d_.core] + list(d_.outs)):
                                    continue
                                q = lambda n: (half(part_[n].get("J", 0)), part_[n].get("P", part_[n].get("Par")))
                                (ja, pa), (jb, pb_), (jc, pc_) = q(str(d_.core)), q(str(d_.outs[0])), q(str(d_.outs[1]))
                                want_ls = ref_ls(ja, pa, jb, pb_, jc, pc_, pbreak[key_])
                                have_ls = sorted((str(Fraction(float(a)).limit_denominator(4)), str(Fraction(float(b)).limit_denominator(4))) for a, b in d_.get_ls_list())
                                if have_ls != want_ls:
                                    log.fail("same-card-same-model", "load|ls-couplings", "decay %s has the (l,s) couplings %s, the selection rules give %s" % (d_, have_ls, want_ls), step=i)
                                    raise Failure()
                        # ---- declared ranges (either form) are the ranges of the model
                        want_b = {}
                        for pn, pv in card["particle"].items():
                            if isinstance(pv, dict) and "m" in str(pv.get("float", "")) and "params" in pv and ("mass_min" in pv["params"] or "mass_max" in pv["params"]):
                                want_b[pn + "_mass"] = [pv["params"].get("mass_min"), pv["params"].get("mass_max")]
                        for vn, vr in (card.get("constrains", {}).get("var_range") or {}).items():
                            want_b[vn] = list(vr)
                        have_b = {kk: list(vv) for kk, vv in obs["bounds"]}
                        for vn, vr in want_b.items():
                            if vn in obs["trainable"] + obs["fixed"] and have_b.get(vn) != vr:
                                log.fail("same-card-same-model", "load|declared-range-lost", "the card declares the range %s for %s, the loaded configuration holds %s" % (vr, vn, have_b.get(vn)), step=i)
                                raise Failure()
                    if base_obs is None:
                        base_obs, base_cfg = obs, cfg
                        log.ev("base", obs=obs)
                        if between:
                            nontrivial = True
                    else:
                        if obs != base_obs:
                            diff = [kk for kk in obs if obs[kk] != base_obs[kk]]
                            log.fail("same-card-same-model", "load|repeat|%s" % "+".join(diff), "load number %d of the same card differs from the first load in %s (after %d other loads in between): %s vs %s" % (nloads, diff, between, json.dumps(obs[diff[0]])[:200], json.dumps(base_obs[diff[0]])[:200]), step=i)
                            raise Failure()
                        if between:
                            nontrivial = True
                    log.state("load", nloads)
                elif k == "variant" and base_obs is not None:
                    v = st["v"]
                    if v == "alias":
                        c2, share = v_alias(card)
                    elif v == "permuted":
                        c2, share = v_permuted(card)
                    elif v in ("include_dict", "include_file"):
                        c2, share = v_include(card, v, scratch)
                    else:
                        c2, share = v_expanded(card)
                    cfg2 = build(c2, share)
                    o2 = observe(cfg2)
                    between += 1
                    for field in ("qn", "ls", "bounds", "gauss", "ties"):
                        if o2[field] != base_obs[field]:
                            log.fail("variant-equivalent", "variant|%s|%s" % (v, field), "the %s form of the card differs from the plain form in %s" % (v, field), step=i)
                            raise Failure()
                    if sorted(map(json.dumps, o2["canon"])) != sorted(map(json.dumps, base_obs["canon"])):
                        log.fail("variant-equivalent", "variant|%s|chains" % v, "the %s form of the card has chains %s, the plain form %s" % (v, o2["chains"], base_obs["chains"]), step=i)
                        raise Failure()
                    if sorted(o2["trainable"]) != sorted(base_obs["trainable"]) or o2["fixed"] != base_obs["fixed"]:
                        log.fail("variant-equivalent", "variant|%s|parameters" % v, "the %s form of the card has different free/fixed parameter names" % v, step=i)
                        raise Failure()
                    # same density with parameters copied by name
                    a1, a2 = base_cfg.get_amplitude(), cfg2.get_amplitude()
                    cards.randomize_params(a1, Stream(spec["data_seed"], "p", i), 0.7)
                    a2.set_params({kk: float(vv) for kk, vv in a1.get_params().items()})
                    with rng_seam(spec["data_seed"]):
                        p = base_cfg.generate_phsp_p(spec["n"])
                    d1 = np.array(a1(base_cfg.data.cal_angle({kk: vv for kk, vv in p.items()})))
                    d2 = np.array(a2(cfg2.data.cal_angle({kk: vv for kk, vv in p.items()})))
                    if d1.shape != d2.shape or not np.allclose(d1, d2, rtol=1e-10, atol=1e-300):
                        log.fail("variant-equivalent", "variant|%s|density" % v, "the %s form of the card gives a different density for the same parameters" % v, step=i)
                        raise Failure()
                elif k == "include_override" and base_obs is not None:
                    # documented: a definition in the card overrides the included one - also when the two are
                    # spelled with different aliases (mass/m0, width/g0, P/Par)
                    between += 1
                    res = [n for n, v in card["particle"].items() if isinstance(v, dict) and not n.startswith("$") and "mass" in v and "J" in v]
                    if res:
                        rn = res[st["pos"] % len(res)]
                        alias = {"mass": "m0", "width": "g0", "P": "Par"}
                        field = ["mass", "width", "P"][st["pos"] % 3]
                        orig = card["particle"][rn]
                        if field in orig:
                            newv = round(orig[field] * 1.07, 4) if field != "P" else -orig[field]
                            plain = copy.deepcopy(card)
                            plain["particle"][rn][field] = newv
                            inc_spelling_alias = (st["pos"] // 3) % 2 == 0
                            inc_def = {(alias.get(kk, kk) if inc_spelling_alias else kk): vv for kk, vv in orig.items()}
                            local = {(field if inc_spelling_alias else alias[field]): newv}
                            c2 = copy.deepcopy(card)
                            c2["particle"][rn] = local
                            c2["particle"]["$include"] = "inc_override"
                            try:
                                o_plain = observe(build(plain))
                                shared = {"inc_override": {rn: inc_def}}  # ONE table object for all loads below
                                shared_before = copy.deepcopy(shared)
                                cfgv = build(c2, shared)
                                o_var = observe(cfgv)
                            except Exception as e:
                                import traceback

                                tb = traceback.extract_tb(e.__traceback__)
                                if "/verif/" in tb[-1].filename:
                                    raise
                                # a changed parity may leave no allowed chain in either form: both must refuse alike
                                log.ev("include-override-refused", err=type(e).__name__)
                                o_plain = o_var = None
                            if o_plain is not None:
                                for fld in ("canon", "qn", "ls", "trainable", "fixed"):
                                    if o_plain[fld] != o_var[fld]:
                                        log.fail("variant-equivalent", "variant|include_override|%s" % fld, "a local override of %s.%s (spelled %r) on top of an $include (spelled with the other alias) is not equivalent to the expanded card: %s differs" % (rn, field, list(local)[0], fld), step=i)
                                        raise Failure()
                                if field != "P":
                                    pn = "%s_%s" % (rn, field)
                                    pv = {kk: float(vv) for kk, vv in cfgv.get_params().items()}
                                    if pn in pv and abs(pv[pn] - newv) > 1e-12:
                                        log.fail("variant-equivalent", "variant|include_override|value", "local override %s=%r on top of an $include is ignored: the model holds %r" % (pn, newv, pv[pn]), step=i)
                                        raise Failure()
                                # the shared table belongs to the caller: a load does not edit it, and the next
                                # card that includes the same table (without the override) is the plain card again
                                if shared != shared_before:
                                    log.fail("same-card-same-model", "shared-include-table|edited-by-a-load", "loading a card with a local override wrote the override into the caller's share_dict: %r -> %r" % (shared_before["inc_override"][rn], shared["inc_override"][rn]), step=i)
                                    raise Failure()
                                c3 = copy.deepcopy(card)
                                del c3["particle"][rn]
                                c3["particle"]["$include"] = "inc_override"
                                o3 = observe(build(c3, shared))
                                for fld in ("canon", "qn", "ls", "trainable", "fixed"):
                                    if o3[fld] != base_obs[fld]:
                                        log.fail("same-card-same-model", "shared-include-table|later-load-differs|%s" % fld, "a card including the shared table AFTER another card had overridden %s.%s locally does not give the plain model: %s differs" % (rn, field, fld), step=i)
                                        raise Failure()
                                log.count("probe.include_override_checked")
                elif k in ("foreign", "other"):
                    between += 1
                    try:
                        cf = build(spec["foreign"] if k == "foreign" else spec["other"])
                        observe(cf)
                    except Exception as e:
                        log.ev("foreign-load-raised", err=type(e).__name__)  # e.g. no allowed chain at all: fine
                        log.count("probe.foreign_card_refused")
                elif k == "fail":
                    between += 1
                    tr = LineTracer(fire_at=st["pos"] * 20, exc_type=InjectedFault)
                    try:
                        with tr:
                            build(card)
                    except InjectedFault:
                        log.count("fault.load_interrupted_by_exception")
                    except Exception as e:
                        log.ev("fail-load-raised", err=type(e).__name__)
                elif k == "fail_retry" and base_obs is not None:
                    # the first amplitude build of a loader is interrupted by an exception; the SAME loader is then
                    # asked again: it must either raise again or deliver the complete model
                    from tf_pwa.config_loader import ConfigLoader

                    between += 1
                    c0 = {kk: vv for kk, vv in copy.deepcopy(card).items() if not kk.startswith("_")}
                    # dry run on a throw-away loader: number of line events of a first build
                    with rng_seam(4242):
                        dry = ConfigLoader(copy.deepcopy(c0))
                    cnt = LineTracer()
                    with cnt:
                        with rng_seam(4242):
                            dry.get_amplitude()
                    import sys as _sys

                    _sys.settrace(None)
                    frac = (st["pos"] % 100) / 100.0
                    if st["pos"] % 3 == 0:
                        frac = 0.9 + 0.1 * frac  # the constraint phase is at the end of the build
                    with rng_seam(4242):
                        cfgr = ConfigLoader(c0)
                    tr = LineTracer(fire_at=max(1, int(frac * cnt.n)), exc_type=InjectedFault)
                    fired = False
                    try:
                        with tr:
                            with rng_seam(4242):
                                cfgr.get_amplitude()
                    except InjectedFault:
                        fired = True
                        log.count("fault.first_build_interrupted")
                    except Exception as e:
                        log.ev("fail-retry-raised", err=type(e).__name__)
                        fired = True
                    if fired:
                        try:
                            with rng_seam(4242):
                                cfgr.get_amplitude()
                            o4 = observe(cfgr)
                        except Exception as e:
                            import traceback

                            tb = traceback.extract_tb(e.__traceback__)
                            if "/verif/" in tb[-1].filename:
                                raise
                            log.count("probe.retry_after_failed_build_raised_again")
                            o4 = None
                        if o4 is not None:
                            # What is claimed for a retry on the SAME, half-initialised loader: the same chains,
                            # quantum numbers, (l,s) couplings and parameter NAMES as a clean load.  How the names
                            # split into free / fixed / tied is not claimed: re-applying the constraint section on
                            # top of a half-applied one is not idempotent on the pinned tree either (a thorough run
                            # found retries with the reference phase left free or a tie not re-applied), and the
                            # property speaks about loads, not about recovering an object after an exception.
                            names4 = sorted(set(o4["trainable"]) | set(o4["fixed"]))
                            namesb = sorted(set(base_obs["trainable"]) | set(base_obs["fixed"]))
                            o4 = {"chains": o4["chains"], "canon": o4["canon"], "ls": o4["ls"], "qn": o4["qn"], "names": names4}
                            ref4 = {"chains": base_obs["chains"], "canon": base_obs["canon"], "ls": base_obs["ls"], "qn": base_obs["qn"], "names": namesb}
                        if o4 is not None and o4 != ref4:
                            diff = [kk for kk in o4 if o4[kk] != ref4[kk]]
                            log.fail("same-card-same-model", "retry-after-failed-build|%s" % "+".join(diff), "after an exception during the first get_amplitude() of a loader, asking the same loader again delivers a model that differs from a clean load in %s: %s vs %s" % (diff, json.dumps(o4[diff[0]])[:300], json.dumps(ref4[diff[0]])[:300]), step=i)
                            raise Failure()
                elif k == "stale_file" and base_obs is not None:
                    # a parameter file left over from an earlier version of the card (other fixed masses/widths)
                    # is loaded as the very first call on a fresh loader: quantities the configuration fixes must
                    # still come from the configuration, whatever the call order
                    from tf_pwa.config_loader import ConfigLoader

                    between += 1
                    c0 = {kk: vv for kk, vv in copy.deepcopy(card).items() if not kk.startswith("_")}
                    with rng_seam(4242):
                        ref_cfg = ConfigLoader(copy.deepcopy(c0))
                        want = {kk: float(vv) for kk, vv in ref_cfg.get_params().items()}
                    stale = dict(want)
                    fixedmw = [n for n in want if (n.endswith("_mass") or n.endswith("_width")) and n not in ref_cfg.get_amplitude().vm.trainable_vars]
                    for n in fixedmw:
                        stale[n] = round(want[n] * 1.05, 5)
                    fn = os.path.join(scratch, "stale_%d.json" % i)
                    with open(fn, "w") as f:
                        json.dump(stale, f)
                    got = {}
                    for order in ("file_first", "amplitude_first"):
                        with rng_seam(4242):
                            cf = ConfigLoader(copy.deepcopy(c0))
                            if order == "amplitude_first":
                                cf.get_amplitude()
                            cf.set_params(fn)
                            got[order] = {kk: float(vv) for kk, vv in cf.get_params().items()}
                    for n in fixedmw:
                        if got["file_first"][n] != got["amplitude_first"][n]:
                            log.fail("same-card-same-model", "stale-parameter-file|call-order", "loading a left-over parameter file gives %s = %r when set_params(file) is the first call on the loader but %r when the amplitude was built first (configuration value %r)" % (n, got["file_first"][n], got["amplitude_first"][n], want[n]), step=i)
                            raise Failure()
                    if fixedmw:
                        log.count("probe.stale_file_checked")
                elif k == "export" and base_obs is not None:
                    from tf_pwa.config_loader import ConfigLoader

                    c0 = {kk: vv for kk, vv in copy.deepcopy(card).items() if not kk.startswith("_")}
                    with rng_seam(4242):
                        ex = ConfigLoader(c0).get_decay().as_config()
                    ex = json.loads(json.dumps(ex, default=str))
                    between += 1
                    try:
                        cfg3 = build(ex)
                    except Exception as e:
                        import traceback

                        tb = traceback.extract_tb(e.__traceback__)
                        if "/verif/" in tb[-1].filename:
                            raise
                        log.fail("export-reload", "export|raised|%s" % type(e).__name__, "loading the exported decay structure raised %s: %s" % (type(e).__name__, str(e)[:200]), step=i)
                        raise Failure()
                    o3 = observe(cfg3)
                    if sorted(map(json.dumps, o3["canon"])) != sorted(map(json.dumps, base_obs["canon"])):
                        log.fail("export-reload", "export|chains", "export -> load gives %d chains %s, the card has %d: %s" % (len(o3["chains"]), o3["chains"], len(base_obs["chains"]), base_obs["chains"]), step=i)
                        raise Failure()
                    if o3["qn"] != base_obs["qn"]:
                        log.fail("export-reload", "export|quantum-numbers", "export -> load changes quantum numbers", step=i)
                        raise Failure()
    except Failure:
        pass
    res = log.result(spec=spec, nontrivial=nontrivial and nloads >= 2)
    res["opkinds"] = {k[3:]: v for k, v in log.counters.items() if k.startswith("op.")}
    # hash-seed independent digest of what the card determines
    res["obs_digest"] = hashlib.sha256(json.dumps(base_obs, sort_keys=True).encode()).hexdigest()[:16] if base_obs else None
    return res


def run(job):
    spec = job["spec"] if job.get("mode") == "spec" else generate(job)
    return execute(spec)


def cross_check(executed):
    """parent side: the same schedule under different PYTHONHASHSEEDs must observe the same model"""
    by_seed = {}
    for j, r in executed:
        if j.get("pair") and r.get("obs_digest"):
            by_seed.setdefault(j["seed"], []).append((j, r))
    out = []
    n = 0
    for seed, items in sorted(by_seed.items()):
        if len(items) < 2:
            continue
        n += 1
        digs = set(r["obs_digest"] for j, r in items)
        if len(digs) != 1:
            j, r = items[-1]
            out.append((j, r, {"oracle": "hash-seed-independence", "key": "load|hash-seed", "detail": "the same card gives different chains/parameters/constraints under PYTHONHASHSEED %s" % [jj.get("hashseed") for jj, _ in items], "step": None}))
    return out, n


def shrink_candidates(spec):
    for i in range(len(spec.get("steps", []))):
        if len(spec["steps"]) > 1:
            s = copy.deepcopy(spec)
            del s["steps"][i]
            if any(x["k"] == "load" for x in s["steps"]):
                yield s

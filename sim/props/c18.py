"""C18 — structured event data operations are lossless.

Reference model: a sample is N event records; a structure is a nest of dict/list/tuple whose leaves
are arrays with leading dimension N.  Sessions: (struct) split/merge/batch_call/batch_sum/mask/index/
replace/strip on generated structures; (lazy) LazyCall pipelines iterated with changing batch sizes,
twice, after early stop, through merge/copy, with the on-disk tf.data cache across a simulated
restart; (files) momentum files txt/npy/npz, multi-file input, dat_order permutations, savetxt ->
load_data on raw and processed data, save_data/save_dataz/load_data, the cached_data life-cycle over
two sessions.  Faults (fs seam): a file-size limit tears a write at byte b / fails the cache writer;
afterwards faults stop: data in memory and other files are unaffected, a later acknowledged save
round-trips, a read of the damaged file raises or returns correct content.
"""
import copy
import json
import os

from sim.prng import Stream

RULE = (
    "sessions are generated from the seed: kind (struct / lazy / files), a nested structure or particle ordering, sample size N in 1..40, "
    "batch sizes 1 / non-dividing / dividing / > N, boolean masks, file formats and multi-file splits, 3..10 operations and optionally one "
    "file-system fault (write torn at a seeded byte). Non-trivial = N >= 2 and at least two operations whose result was compared with the "
    "reference rows; distinct = distinct event-log digests."
)


def plan(tier, seed):
    n = 420 if tier == "quick" else 16000
    jobs = [{"mode": "seed", "seed": seed * 1000003 + i} for i in range(n)]
    return {
        "jobs": jobs,
        "timeout": 150,
        "budget_s": 90 if tier == "quick" else 2400,
        "level": "exploration",
        "rule": RULE,
        "min_executed": 100,
        "shrink_s": 60,
        "real_vs_stub": {
            "real": "tf_pwa.data helpers, LazyCall / tf.data pipelines incl. the native cache writer, load_dat_file, numpy file formats, ConfigLoader data layer (savetxt, load_data, cached_data)",
            "simulated": "operation history, batch schedule, restart = fresh objects on the surviving scratch directory, torn/failed writes through RLIMIT_FSIZE (all writers incl. native ones), hash seed",
            "stub": "the per-event function applied lazily is a harness function (HeavyCall or plain)",
        },
        "assumptions": [
            "structures always contain at least one array leaf (a structure of empty containers only has no sample size)",
            "the tf.data prefetch thread is not scheduled by the simulator; only the element sequence is observed",
            "under a write fault nothing is claimed about the unacknowledged file itself",
        ],
    }


# ----------------------------------------------------------------------------------- generation


def gen_struct(rs, depth=0):
    """description of a nested structure: leaves are ('leaf', trailing shape, dtype)"""
    t = rs.weighted([("dict", 4), ("list", 2), ("tuple", 1)]) if depth < 2 else "dict"
    n = rs.randint(1, 3)
    items = []
    for i in range(n):
        k = rs.weighted([("leaf", 5), ("nest", 2 if depth < 2 else 0), ("empty_dict", 0.5), ("empty_list", 0.5)])
        if k == "leaf":
            items.append(["leaf", rs.choice([[], [], [4], [2, 2]]), rs.choice(["f8", "f8", "c16", "i8"])])
        elif k == "nest":
            items.append(gen_struct(rs, depth + 1))
        elif k == "empty_dict":
            items.append(["edict"])
        else:
            items.append(["elist"])
    return [t, items]


def has_leaf(s):
    if s[0] == "leaf":
        return True
    if s[0] in ("edict", "elist"):
        return False
    return any(has_leaf(i) for i in s[1])


def generate(job):
    rs = Stream(job["seed"], "C18")
    kind = rs.weighted([("struct", 4), ("lazy", 4), ("files", 4), ("lazy_config", 2)])
    N = rs.choice([1, 2, 3, 7, 10, 16, 40])
    spec = {"kind": kind, "N": N, "dseed": rs.randrange(1 << 30), "ops": []}

    def batch():
        return rs.choice([1, 2, 3, max(1, N - 1), N, N + 3, 7])

    if kind == "struct":
        s = gen_struct(rs)
        while not has_leaf(s):
            s = gen_struct(rs)
        spec["struct"] = s
        for _ in range(rs.randint(3, 8)):
            k = rs.choice(["split_merge", "split_merge", "split_merge_lastaxis", "batch_call", "batch_call_scalar", "batch_sum", "mask", "index", "replace", "strip", "merge_two"])
            spec["ops"].append({"k": k, "b": batch(), "mseed": rs.randrange(1 << 30)})
    elif kind == "lazy":
        spec["heavy"] = rs.chance(0.6)
        spec["nested"] = rs.chance(0.5)
        spec["extra"] = rs.chance(0.6)
        spec["cache"] = rs.choice([None, None, "dir", "mem"])
        spec["prefetch"] = rs.choice([0, 1, -1])
        for _ in range(rs.randint(3, 9)):
            k = rs.choice(["iterate", "iterate", "iterate", "iterate_early_stop", "eval", "merge", "copy", "restart", "batch_call", "replace_on_copy"])
            spec["ops"].append({"k": k, "b": batch()})
        if spec["cache"] == "dir" and rs.chance(0.4):
            spec["fault"] = {"at": rs.randrange(len(spec["ops"])), "bytes": rs.choice([0, 64, 300, 2000])}
    elif kind == "lazy_config":
        spec["n_part"] = 3
        spec["perm"] = rs.shuffle([0, 1, 2])
        spec["lazy_file"] = rs.chance(0.5)
        spec["cache"] = rs.choice([None, "dir"])
        spec["prefetch"] = rs.choice([0, 1, -1])
        spec["fmt"] = "npy" if spec["lazy_file"] else rs.choice(["npy", "dat"])
        for _ in range(rs.randint(2, 6)):
            spec["ops"].append({"k": rs.choice(["iterate", "iterate", "eval", "restart", "batch_call"]), "b": batch()})
    else:
        n = rs.choice([3, 3, 4])
        spec["n_part"] = n
        spec["perm"] = rs.shuffle(list(range(n)))
        for _ in range(rs.randint(3, 7)):
            k = rs.choice(["loadfile", "loadfile", "multifile", "savetxt_raw", "savetxt_processed", "savetxt_processed", "calangle_savetxt", "cal_angle_forms", "save_struct", "cached_data", "weight_files"])
            spec["ops"].append({"k": k, "fmt": rs.choice(["dat", "npy", "npz"]), "nfile": rs.choice([1, 2, 3]), "z": rs.chance(0.4), "wform": rs.choice(["txt", "npy1d", "npycol", "list_npycol", "list_txt", "list_npy1d"])})
        if rs.chance(0.35):
            spec["fault"] = {"at": rs.randrange(len(spec["ops"])), "bytes": rs.choice([0, 40, 200, 1000])}
    return spec


# ----------------------------------------------------------------------------------- helpers


class Failure(Exception):
    pass


def build_struct(np, s, N, g):
    if s[0] == "leaf":
        shape = [N] + list(s[1])
        if s[2] == "i8":
            return g.integers(-50, 50, size=shape)
        if s[2] == "c16":
            return g.normal(size=shape) + 1j * g.normal(size=shape)
        return g.normal(size=shape)
    if s[0] == "edict":
        return {}
    if s[0] == "elist":
        return []
    items = [build_struct(np, i, N, g) for i in s[1]]
    if s[0] == "dict":
        return {"k%d" % i: v for i, v in enumerate(items)}
    if s[0] == "list":
        return items
    return tuple(items)


def leaves(np, d, path=()):
    """flat list of (path, ndarray) of a structure (tensors converted)"""
    out = []
    if isinstance(d, dict):
        for k in sorted(d.keys(), key=str):
            out += leaves(np, d[k], path + (str(k),))
    elif isinstance(d, (list, tuple)):
        for i, v in enumerate(d):
            out += leaves(np, v, path + (i,))
    else:
        out.append((path, np.array(d)))
    return out


def same_struct(np, a, b, exact=True):
    la, lb = leaves(np, a), leaves(np, b)
    if [p for p, _ in la] != [p for p, _ in lb]:
        return "structure differs: %s vs %s" % ([p for p, _ in la][:6], [p for p, _ in lb][:6])
    for (p, x), (_, y) in zip(la, lb):
        if x.shape != y.shape:
            return "leaf %s has shape %s instead of %s" % (p, y.shape, x.shape)
        if exact and not np.array_equal(x, y):
            return "leaf %s differs" % (p,)
        if not exact and not np.allclose(x, y, rtol=1e-12, atol=1e-300):
            return "leaf %s differs" % (p,)
    return None


# ----------------------------------------------------------------------------------- struct sessions


def run_struct(spec, log):
    import numpy as np
    import tensorflow as tf

    from tf_pwa import data as D

    N = spec["N"]
    g = np.random.Generator(np.random.PCG64(spec["dseed"]))
    data = build_struct(np, spec["struct"], N, g)
    ref = leaves(np, data)
    compared = 0
    for i, op in enumerate(spec["ops"]):
        k, b = op["k"], op["b"]
        log.count("op." + k)
        try:
            compared += struct_op(np, tf, D, log, data, ref, N, i, op)
        except Failure:
            raise
        except Exception as e:
            import traceback

            tb = traceback.extract_tb(e.__traceback__)
            if "/verif/" in tb[-1].filename:
                raise
            log.fail("raised", "%s|raised|%s" % (k, type(e).__name__), "%s (batch=%d) raised %s: %s" % (k, b, type(e).__name__, str(e)[:200]), step=i)
            raise Failure()
        log.state(k, b)
    return compared


def struct_op(np, tf, D, log, data, ref, N, i, op):
    compared = 0
    k, b = op["k"], op["b"]
    if True:
        if k == "split_merge":
            parts = list(D.data_split(data, b))
            want_n = (N + b - 1) // b
            if len(parts) != want_n:
                log.fail("batch-count", "data_split|batch-count", "data_split(N=%d, batch=%d) gave %d batches, expected %d" % (N, b, len(parts), want_n), step=i)
                raise Failure()
            sizes = [D.data_shape(p) for p in parts]
            if any(s != b for s in sizes[:-1]) or sum(sizes) != N:
                log.fail("batch-size", "data_split|batch-size", "batch sizes %s for N=%d, batch=%d" % (sizes, N, b), step=i)
                raise Failure()
            merged = D.data_merge(*parts)
            err = same_struct(np, data, merged)
            if err:
                log.fail("split-merge-identity", "data_split+data_merge|identity", "splitting in batches of %d and merging does not reproduce the data: %s" % (b, err), step=i)
                raise Failure()
            compared += 1
        elif k == "batch_call":

            def f(x):
                ls = leaves(np, x)
                return sum(tf.reduce_sum(tf.reshape(tf.math.real(tf.cast(v, tf.complex128)), (v.shape[0], -1)), axis=1) * (j + 1) for j, (p, v) in enumerate(ls))

            whole = np.array(f(data))
            got = np.array(D.batch_call(f, data, batch=b))
            if got.shape != whole.shape or not np.allclose(got, whole, rtol=1e-12, atol=1e-12):
                log.fail("batchwise-equals-whole", "batch_call|batchwise-equals-whole", "batch_call(f, batch=%d) differs from f(whole sample) (shapes %s vs %s)" % (b, got.shape, whole.shape), step=i)
                raise Failure()
            compared += 1
        elif k == "split_merge_lastaxis":
            # the same structure with the event axis LAST (axis=-1), as histogram/binning code stores it
            tdata = D.data_map(data, lambda v: np.moveaxis(np.array(v), 0, -1))
            parts = list(D.data_split(tdata, b, axis=-1))
            if len(parts) != (N + b - 1) // b:
                log.fail("batch-count", "data_split(axis=-1)|batch-count", "data_split(axis=-1, N=%d, batch=%d) gave %d batches" % (N, b, len(parts)), step=i)
                raise Failure()
            merged = D.data_merge(*parts, axis=-1)
            err = same_struct(np, tdata, merged)
            if err:
                log.fail("split-merge-identity", "data_split+data_merge(axis=-1)|identity", "splitting along the last axis in batches of %d and merging along it does not reproduce the data: %s" % (b, err), step=i)
                raise Failure()
            compared += 1
        elif k == "batch_call_scalar":
            # a function returning a plain number (a constant cut / efficiency): one value per event
            c = 0.5 + (op["mseed"] % 7)
            got = np.array(D.batch_call(lambda x: float(c), data, batch=b))
            if got.shape != (N,) or not np.all(got == c):
                log.fail("batchwise-equals-whole", "batch_call|scalar-function", "batch_call of a constant function over N=%d events in batches of %d returned shape %s" % (N, b, got.shape), step=i)
                raise Failure()
            compared += 1
        elif k == "batch_sum":

            def fs(x):
                ls = leaves(np, x)
                return sum(tf.reduce_sum(tf.math.real(tf.cast(v, tf.complex128))) * (j + 1) for j, (p, v) in enumerate(ls))

            whole = float(fs(data))
            got = float(D.batch_sum(fs, data, batch=b))
            if abs(got - whole) > 1e-9 * (1 + abs(whole)):
                log.fail("batchwise-equals-whole", "batch_sum|batchwise-equals-whole", "batch_sum(batch=%d)=%r, whole sample %r" % (b, got, whole), step=i)
                raise Failure()
            compared += 1
        elif k == "mask":
            gm = np.random.Generator(np.random.PCG64(op["mseed"]))
            m = gm.random(N) < gm.choice([0.0, 0.3, 0.5, 1.0])
            got = D.data_mask(data, m)
            want = [(p, v[m]) for p, v in ref]
            gl = leaves(np, got)
            if [p for p, _ in gl] != [p for p, _ in want] or any(not np.array_equal(a, b2) for (_, a), (_, b2) in zip(want, gl)):
                log.fail("mask-selects-rows", "data_mask|mask-selects-rows", "data_mask does not select exactly the addressed events in every leaf (N=%d, %d selected)" % (N, int(m.sum())), step=i)
                raise Failure()
            compared += 1
        elif k == "index":
            for p, v in ref:
                got = np.array(D.data_index(data, list(p) if len(p) > 1 else p[0]))
                if not np.array_equal(got, v):
                    log.fail("index", "data_index|index", "data_index(%s) returns a different leaf" % (p,), step=i)
                    raise Failure()
            compared += 1
        elif k == "replace":
            if isinstance(data, dict):
                new = D.data_replace(data, "extra_key", np.arange(N))
                if not np.array_equal(np.array(new["extra_key"]), np.arange(N)) or same_struct(np, data, {kk: v for kk, v in new.items() if kk != "extra_key"}):
                    log.fail("replace", "data_replace|replace", "data_replace changed other leaves or lost the value", step=i)
                    raise Failure()
                if "extra_key" in data:
                    log.fail("replace", "data_replace|mutates-input", "data_replace mutated its input", step=i)
                    raise Failure()
        elif k == "strip":
            if isinstance(data, dict) and len(data) > 1:
                key = sorted(data.keys())[0]
                got = D.data_strip(data, [key])
                want = {kk: v for kk, v in data.items() if kk != key}
                err = same_struct(np, D.data_strip(want, [key]), got)
                if err or key in got:
                    log.fail("strip", "data_strip|strip", "data_strip(%s): %s" % (key, err), step=i)
                    raise Failure()
        elif k == "merge_two":
            merged = D.data_merge(data, data)
            want = [(p, np.concatenate([v, v], axis=0)) for p, v in ref]
            gl = leaves(np, merged)
            if [p for p, _ in gl] != [p for p, _ in want] or any(not np.array_equal(a, b2) for (_, a), (_, b2) in zip(want, gl)):
                log.fail("merge", "data_merge|concatenates", "data_merge(d, d) is not the row-wise concatenation", step=i)
                raise Failure()
            compared += 1
    return compared


# ----------------------------------------------------------------------------------- lazy sessions


def run_lazy(spec, log, scratch):
    import numpy as np
    import tensorflow as tf

    from sim.seams import file_size_limit
    from tf_pwa import data as D

    N = spec["N"]
    g = np.random.Generator(np.random.PCG64(spec["dseed"]))
    x = {"a": g.normal(size=(N, 4)), "b": {"c": g.normal(size=(N,))}}
    w = g.random(N) + 0.1

    def f1(d):
        return {"s": tf.reduce_sum(tf.convert_to_tensor(d["a"]), axis=-1) + tf.convert_to_tensor(d["b"]["c"]), "a": tf.convert_to_tensor(d["a"])}

    def f2(d):
        return {"t": d["s"] * 2.0 + 1.0, "a2": d["a"][..., 0]}

    eager = f1(x)
    if spec["nested"]:
        eager = f2(eager)
    want = {k: np.array(v) for k, v in eager.items()}
    if spec["extra"]:
        want["weight"] = w

    def make():
        fa = D.HeavyCall(f1) if spec["heavy"] else f1
        lz = D.LazyCall(fa, x)
        if spec["nested"]:
            lz = D.LazyCall(D.HeavyCall(f2) if spec["heavy"] else f2, lz)
        if spec["extra"]:
            lz["weight"] = w
        if spec["cache"] == "dir":
            os.makedirs(os.path.join(scratch, "cache"), exist_ok=True)
            lz.set_cached_file(os.path.join(scratch, "cache") + "/", "p")
        elif spec["cache"] == "mem":
            lz.set_cached_file("", "p")
        lz.prefetch = spec["prefetch"]
        return lz

    lz = make()
    compared = 0
    fault = spec.get("fault")

    def check_batches(parts, b, what, i, n_expected=None):
        nonlocal compared
        n_expected = N if n_expected is None else n_expected
        sizes = [int(np.array(list(p.values())[0]).shape[0]) for p in parts]
        for p in parts:
            ls = set(int(np.array(v).shape[0]) for v in p.values())
            if len(ls) != 1:
                log.fail("lazy-equals-eager", "LazyCall|%s|ragged-batch" % what, "a lazily produced batch has leaves of different lengths %s (batch=%d)" % (sorted(ls), b), step=i)
                raise Failure()
        if sum(sizes) != n_expected or any(s != b for s in sizes[:-1]) or len(sizes) != (n_expected + b - 1) // b:
            log.fail("lazy-equals-eager", "LazyCall|%s|batch-sizes" % what, "lazy iteration with batch=%d over %d events gave batch sizes %s" % (b, n_expected, sizes), step=i)
            raise Failure()
        for key in want:
            got = np.concatenate([np.array(p[key]) for p in parts], axis=0)
            ref = want[key] if n_expected == N else np.concatenate([want[key], want[key]], axis=0)
            if got.shape != ref.shape or not np.allclose(got, ref, rtol=1e-12, atol=1e-300):
                log.fail("lazy-equals-eager", "LazyCall|%s|content" % what, "lazily produced content of %r differs from eager data (batch=%d)" % (key, b), step=i)
                raise Failure()
        compared += 1

    for i, op in enumerate(spec["ops"]):
        k, b = op["k"], op["b"]
        log.count("op." + k)
        faulty = fault is not None and fault["at"] == i
        try:
            if faulty:
                log.count("fault.file_size_limit")
                ctx = file_size_limit(fault["bytes"])
            else:
                import contextlib

                ctx = contextlib.nullcontext()
            with ctx:
                if k == "iterate":
                    parts = [dict(p) for p in D.data_split(lz, b)]
                    check_batches(parts, b, "iterate", i)
                elif k == "iterate_early_stop":
                    it = iter(D.data_split(lz, b))
                    try:
                        next(it)
                    except StopIteration:
                        pass
                    del it
                    parts = [dict(p) for p in D.data_split(lz, b)]
                    check_batches(parts, b, "iterate-after-early-stop", i)
                elif k == "eval":
                    ev = lz.eval()
                    for key in want:
                        if not np.allclose(np.array(ev[key]), want[key], rtol=1e-12, atol=1e-300):
                            log.fail("lazy-equals-eager", "LazyCall|eval|content", "eval() content of %r differs from eager data" % key, step=i)
                            raise Failure()
                    compared += 1
                elif k == "merge":
                    m = D.data_merge(lz, make())
                    parts = [dict(p) for p in D.data_split(m, b)]
                    check_batches(parts, b, "merge", i, n_expected=2 * N)
                elif k == "copy":
                    c = lz.copy()
                    parts = [dict(p) for p in D.data_split(c, b)]
                    check_batches(parts, b, "copy", i)
                elif k == "replace_on_copy":
                    # data_replace / a write to a copy gives a NEW lazy sample; the original keeps its leaves
                    # (what nll_grad_hessian and the cfit plot helpers do to the data and phsp samples)
                    w2 = np.arange(N) * 1.0 + 7.0
                    new = D.data_replace(lz, "weight", w2)
                    c2 = lz.copy()
                    c2["tag_only_on_the_copy"] = np.zeros(N)
                    parts = [dict(p) for p in D.data_split(lz, b)]
                    if any("tag_only_on_the_copy" in p for p in parts) or ("weight" in parts[0]) != ("weight" in want):
                        log.fail("lazy-equals-eager", "LazyCall|replace_on_copy|original-gained-a-leaf", "a leaf written to a copy / a replaced leaf shows up in the original lazy sample", step=i)
                        raise Failure()
                    check_batches([{kk: v for kk, v in p.items() if kk in want} for p in parts], b, "original-after-data_replace-on-a-copy", i)
                    got = np.concatenate([np.array(p["weight"]) for p in D.data_split(new, b)], axis=0)
                    if got.shape != w2.shape or not np.array_equal(got, w2):
                        log.fail("lazy-equals-eager", "LazyCall|replace_on_copy|replaced-leaf", "data_replace(lazy, 'weight', w) does not deliver w", step=i)
                        raise Failure()
                elif k == "restart":
                    # new objects (a new session) on the surviving scratch directory
                    lz = make()
                    log.count("probe.restart_with_cache_dir" if spec["cache"] == "dir" else "probe.restart")
                    parts = [dict(p) for p in D.data_split(lz, b)]
                    check_batches(parts, b, "after-restart", i)
                elif k == "batch_call":
                    got = np.array(D.batch_call(lambda d: d[sorted(k2 for k2 in want if k2 != "weight")[0]], lz, batch=b))
                    key = sorted(k2 for k2 in want if k2 != "weight")[0]
                    if got.shape != want[key].shape or not np.allclose(got, want[key], rtol=1e-12):
                        log.fail("batchwise-equals-whole", "batch_call(lazy)|batchwise-equals-whole", "batch_call over lazy data (batch=%d) differs from eager data" % b, step=i)
                        raise Failure()
                    compared += 1
        except Failure:
            if faulty:
                # under an injected write fault an operation may fail, it may not return different data...
                # ...which is exactly what the Failure says: keep it
                raise
            raise
        except Exception as e:
            import traceback

            tb = traceback.extract_tb(e.__traceback__)
            if "/verif/" in tb[-1].filename:
                raise
            if faulty:
                log.count("probe.operation_raised_under_fault")
                log.ev("raised-under-fault", k=k, err=type(e).__name__)
                lz = make()  # the session continues with fresh objects; the damaged cache may be reused or rebuilt
                continue
            log.fail("raised", "LazyCall|%s|raised|%s" % (k, type(e).__name__), "%s raised %s: %s" % (k, type(e).__name__, str(e)[:300]), step=i)
            raise Failure()
        log.state(k, b)
    return compared


# ----------------------------------------------------------------------------------- file sessions

CARD = {
    "decay": {"A": [["R_BC", "D"], ["R_CD", "B"]], "R_BC": ["B", "C"], "R_CD": ["C", "D"]},
    "particle": {
        "$top": {"A": {"J": 0, "P": -1, "mass": 4.0}},
        "$finals": {"B": {"J": 0, "P": -1, "mass": 0.5}, "C": {"J": 0, "P": -1, "mass": 0.6}, "D": {"J": 0, "P": -1, "mass": 0.3}},
        "R_BC": {"J": 1, "P": -1, "mass": 2.0, "width": 0.1},
        "R_CD": {"J": 1, "P": -1, "mass": 1.5, "width": 0.1},
    },
}
CARD4 = {
    "decay": {"A": [["R_BC", "R_DE"]], "R_BC": ["B", "C"], "R_DE": ["D", "E"]},
    "particle": {
        "$top": {"A": {"J": 0, "P": -1, "mass": 5.0}},
        "$finals": {"B": {"J": 0, "P": -1, "mass": 0.5}, "C": {"J": 0, "P": -1, "mass": 0.14}, "D": {"J": 0, "P": -1, "mass": 0.14}, "E": {"J": 0, "P": -1, "mass": 0.5}},
        "R_BC": {"J": 1, "P": -1, "mass": 1.0, "width": 0.1},
        "R_DE": {"J": 1, "P": -1, "mass": 1.1, "width": 0.12},
    },
}


def run_files(spec, log, scratch):
    import numpy as np

    from sim.seams import file_size_limit, rng_seam
    from tf_pwa import data as D
    from tf_pwa.config_loader import ConfigLoader

    N = spec["N"]
    n = spec["n_part"]
    card = copy.deepcopy(CARD if n == 3 else CARD4)
    names = ["B", "C", "D", "E"][:n]
    order = [names[i] for i in spec["perm"]]
    card["data"] = {"dat_order": order}
    cfg = ConfigLoader(card)
    with rng_seam(spec["dseed"]):
        p = cfg.generate_phsp_p(N)
    P = {str(k): np.array(v) for k, v in p.items()}  # truth: particle -> (N,4)
    compared = 0
    fault = spec.get("fault")
    written = {}

    def interleaved(ordr):
        return np.stack([P[k] for k in ordr]).transpose((1, 0, 2)).reshape((-1, 4))

    def check_particles(got, what, i, exact=True):
        nonlocal compared
        g2 = {str(k): np.array(v) for k, v in got.items()}
        if sorted(g2) != sorted(P):
            log.fail("particle-assignment", "%s|particles" % what, "%s returned particles %s" % (what, sorted(g2)), step=i)
            raise Failure()
        for k in P:
            ok = np.array_equal(g2[k], P[k]) if exact else np.allclose(g2[k], P[k], rtol=1e-15, atol=0)
            if g2[k].shape != P[k].shape or not ok:
                other = [o for o in P if o != k and g2[k].shape == P[o].shape and np.allclose(g2[k], P[o])]
                log.fail("particle-assignment", "%s|%s" % (what, "permuted" if other else "content"), "%s: momenta read back for particle %s %s" % (what, k, ("are those of particle %s" % other[0]) if other else "differ from what was written"), step=i)
                raise Failure()
        compared += 1

    for i, op in enumerate(spec["ops"]):
        k = op["k"]
        log.count("op." + k)
        faulty = fault is not None and fault["at"] == i
        import contextlib

        try:
            if k in ("loadfile", "multifile"):
                fmt = op["fmt"]
                nfile = 1 if k == "loadfile" else min(op["nfile"], n)
                # several files = the final-state particles distributed over the files (each file holds the
                # interleaved momenta of its consecutive group of particles for all events)
                cuts = [round(j * n / nfile) for j in range(nfile + 1)]
                fns = []
                with file_size_limit(fault["bytes"]) if faulty else contextlib.nullcontext():
                    if faulty:
                        log.count("fault.file_size_limit")
                    for j in range(nfile):
                        part = interleaved(order[cuts[j] : cuts[j + 1]])
                        fn = os.path.join(scratch, "f%d_%d.%s" % (i, j, fmt))
                        if fmt == "dat":
                            np.savetxt(fn, part)
                        elif fmt == "npy":
                            np.save(fn, part)
                        else:
                            np.savez(fn, part)
                        fns.append(fn)
                got = D.load_dat_file(fns if nfile > 1 else fns[0], order)
                check_particles(got, "load_dat_file(%s,%d files)" % (fmt, nfile), i, exact=(fmt != "dat"))
            elif k in ("savetxt_raw", "savetxt_processed"):
                fmt = "npy" if op["fmt"] != "dat" else "dat"
                fn = os.path.join(scratch, "s%d.%s" % (i, fmt))
                if k == "savetxt_raw":
                    src = {kk: v for kk, v in p.items()}
                else:
                    src = cfg.data.cal_angle({kk: v for kk, v in p.items()})
                with file_size_limit(fault["bytes"]) if faulty else contextlib.nullcontext():
                    if faulty:
                        log.count("fault.file_size_limit")
                    cfg.data.savetxt(fn, src)
                back = cfg.data.load_data(fn)
                got = {str(kk): np.array(v["p"]) for kk, v in back["particle"].items() if str(kk) in P}
                check_particles(got, "%s->load_data(%s, dat_order=%s)" % (k, fmt, "".join(order)), i, exact=(fmt != "dat"))
            elif k == "cal_angle_forms":
                # momenta handed over as a list / tuple in dat_order instead of a dict: same particle assignment
                as_dict = cfg.data.cal_angle({kk: v for kk, v in p.items()})
                byname = {str(kk): v for kk, v in p.items()}
                seq = [byname[nm] for nm in order]
                for form, arg in (("list", list(seq)), ("tuple", tuple(seq))):
                    res = cfg.data.cal_angle(arg)
                    got = {str(kk): np.array(v["p"]) for kk, v in res["particle"].items() if str(kk) in P}
                    check_particles(got, "cal_angle(%s in dat_order %s)" % (form, "".join(order)), i, exact=True)
                ref_m = {str(kk): np.array(v["m"]) for kk, v in as_dict["particle"].items()}
                got_m = {str(kk): np.array(v["m"]) for kk, v in res["particle"].items()}
                for nm in ref_m:
                    if not np.allclose(ref_m[nm], got_m[nm], rtol=1e-12):
                        log.fail("particle-assignment", "cal_angle(sequence)|masses", "invariant mass of %s differs between dict and sequence input" % nm, step=i)
                        raise Failure()
            elif k == "calangle_savetxt":
                # the data object's own writer: particle order given explicitly or the natural order of the decay
                src = cfg.data.cal_angle({kk: v for kk, v in p.items()})
                if hasattr(src, "savetxt"):
                    fn = os.path.join(scratch, "ca%d.dat" % i)
                    use = None if op["z"] else list(order)
                    with file_size_limit(fault["bytes"]) if faulty else contextlib.nullcontext():
                        if faulty:
                            log.count("fault.file_size_limit")
                        src.savetxt(fn, order=use)
                    written_order = use if use is not None else [str(x) for x in src.get_decay().outs]
                    got = D.load_dat_file(fn, written_order)
                    check_particles(got, "CalAngleData.savetxt(order=%s)->load_dat_file" % ("".join(use) if use else "None"), i, exact=False)
                    if op.get("nfile", 1) != 2:
                        # with charges: cp_trans=True writes the spatial components times the charge sign, exactly
                        q = np.where((np.arange(N) + op.get("nfile", 1)) % 3 == 0, -1.0, 1.0)
                        src["charge_conjugation"] = q
                        fn2 = os.path.join(scratch, "cacp%d.dat" % i)
                        src.savetxt(fn2, order=use, cp_trans=True, save_charge=bool(op["z"]))
                        got = {str(kk): np.array(v) for kk, v in D.load_dat_file(fn2, written_order).items()}
                        for kk in P:
                            want = P[kk] * np.stack([np.ones(N), q, q, q], axis=-1)
                            if got[kk].shape != want.shape or not np.array_equal(got[kk], want):
                                log.fail("file-roundtrip", "CalAngleData.savetxt(cp_trans)|content", "momenta of %s written with cp_trans=True differ from charge * momentum by up to %.3g" % (kk, float(np.max(np.abs(got[kk] - want))) if got[kk].shape == want.shape else float("inf")), step=i)
                                raise Failure()
                        if op["z"]:
                            qf = np.loadtxt(fn2[::-1].replace(".", ".c", 1)[::-1]).reshape((-1,))
                            if not np.array_equal(qf, q):
                                log.fail("file-roundtrip", "CalAngleData.savetxt(save_charge)|content", "the charge file written next to the momenta differs from the charges", step=i)
                                raise Failure()
                        compared += 1
            elif k == "save_struct":
                st = {"p": P, "w": np.arange(N) * 0.5, "nest": [P[names[0]], {"x": P[names[1]][:, 0]}]}
                fn = os.path.join(scratch, "st%d" % i)
                with file_size_limit(fault["bytes"]) if faulty else contextlib.nullcontext():
                    if faulty:
                        log.count("fault.file_size_limit")
                    if op["z"]:
                        D.save_dataz(fn, st)
                        fn += ".npz"
                    else:
                        D.save_data(fn, st)
                        fn += ".npy"
                back = D.load_data(fn)
                err = same_struct(np, st, back)
                if err:
                    log.fail("file-roundtrip", "save_data|roundtrip", "save_data%s -> load_data: %s" % ("z" if op["z"] else "", err), step=i)
                    raise Failure()
                compared += 1
            elif k == "weight_files":
                # per-event weights (and charges) named in the data section: whatever the layout of the file (text
                # column, 1-d .npy, (N,1) column .npy; one name or a list of names) the loaded leaf is the (N,)
                # array that was written
                arr = interleaved(order)
                f1 = os.path.join(scratch, "wf_data_%d.npy" % i)
                np.save(f1, arr)
                w = 0.25 + np.arange(N) * 0.5
                q = np.where(np.arange(N) % 3 == 0, -1.0, 1.0)
                form = op.get("wform", "txt")
                names_ = []
                for tag, val in (("w", w), ("q", q)):
                    wf = os.path.join(scratch, "wf_%s_%d.%s" % (tag, i, "txt" if form.endswith("txt") else "npy"))
                    with file_size_limit(fault["bytes"]) if faulty else contextlib.nullcontext():
                        if faulty:
                            log.count("fault.file_size_limit")
                        if form.endswith("txt"):
                            np.savetxt(wf, val)
                        elif form.endswith("npycol"):
                            np.save(wf, val.reshape((-1, 1)))
                        else:
                            np.save(wf, val)
                    names_.append([wf] if form.startswith("list_") else wf)
                c2 = copy.deepcopy(card)
                c2["data"].update({"data": [f1], "data_weight": names_[0], "data_charge": names_[1]})
                s1 = ConfigLoader(c2)
                d = s1.get_data("data")[0]
                for leaf, val in (("weight", w), ("charge_conjugation", q)):
                    got = np.array(d[leaf])
                    if got.shape != (N,) or not np.allclose(got, val, rtol=1e-15, atol=0):
                        log.fail("file-roundtrip", "weight_files|%s|%s" % (leaf, "shape" if got.shape != (N,) else "content"), "data_%s file (%s): the loaded %s leaf has shape %s, written were %d values" % ("weight" if leaf == "weight" else "charge", form, leaf, got.shape, N), step=i)
                        raise Failure()
                pa = {str(kk): np.array(v["p"]) for kk, v in d["particle"].items() if str(kk) in P}
                # charge -1 events are parity-transformed on loading: compare the charge +1 events only
                sel = q > 0
                for kk in P:
                    if not np.array_equal(pa[kk][sel], P[kk][sel]):
                        log.fail("particle-assignment", "weight_files|momenta", "momenta of particle %s loaded next to weight/charge files differ from what was written" % kk, step=i)
                        raise Failure()
                compared += 1
            elif k == "cached_data":
                arr = interleaved(order)
                f1 = os.path.join(scratch, "cd_data_%d.dat" % i)
                f2 = os.path.join(scratch, "cd_phsp_%d.npy" % i)
                np.savetxt(f1, arr)
                np.save(f2, arr)
                cf = os.path.join(scratch, "cached_%d.npy" % i)
                c2 = copy.deepcopy(card)
                c2["data"].update({"data": [f1], "phsp": [f2], "cached_data": cf})
                if op.get("z"):
                    # a background sample of another size with weight scaling: the cached file must hold what the
                    # first session used, and the second session must not process it a second time
                    nb = max(1, N // 2 + 1)
                    f3 = os.path.join(scratch, "cd_bg_%d.npy" % i)
                    np.save(f3, arr[: nb * n])
                    c2["data"].update({"bg": [f3], "bg_weight": 0.3, "weight_scale": True})
                with file_size_limit(fault["bytes"]) if faulty else contextlib.nullcontext():
                    if faulty:
                        log.count("fault.file_size_limit")
                    s1 = ConfigLoader(copy.deepcopy(c2))
                    d1 = s1.get_all_data()
                # second session: fresh loader on the surviving directory
                s2 = ConfigLoader(copy.deepcopy(c2))
                d2 = s2.get_all_data()
                log.count("probe.cached_data_second_session")
                for a, b2, nm in zip(d1, d2, ("data", "phsp", "bg", "inmc")):
                    if a is None and b2 is None:
                        continue
                    err = same_struct(np, a, b2) if (a is not None and b2 is not None) else "sample %s is missing in one session" % nm
                    if err:
                        log.fail("file-roundtrip", "cached_data|second-session-differs|%s" % nm, "the %s sample of the second session (read from cached_data) differs from what the first session used: %s" % (nm, err), step=i)
                        raise Failure()
                for a, b2, nm in zip(d1[:2], d2[:2], ("data", "phsp")):
                    for g1, g2 in zip(a, b2):
                        pa = {str(kk): np.array(v["p"]) for kk, v in g1["particle"].items() if str(kk) in P}
                        pb = {str(kk): np.array(v["p"]) for kk, v in g2["particle"].items() if str(kk) in P}
                        check_particles(pa, "get_all_data(first session, %s)" % nm, i, exact=(nm != "data"))
                        check_particles(pb, "get_all_data(second session from cached_data, %s)" % nm, i, exact=(nm != "data"))
        except Failure:
            if faulty:
                # a read of a damaged (unacknowledged) file that returns wrong content is a violation; keep
                raise
            raise
        except Exception as e:
            import traceback

            tb = traceback.extract_tb(e.__traceback__)
            if "/verif/" in tb[-1].filename:
                raise
            if faulty:
                log.count("probe.operation_raised_under_fault")
                log.ev("raised-under-fault", k=k, err=type(e).__name__)
                continue
            log.fail("raised", "%s|raised|%s" % (k, type(e).__name__), "%s raised %s: %s" % (k, type(e).__name__, str(e)[:300]), step=i)
            raise Failure()
        log.state(k, op.get("fmt"))
    # memory unaffected by everything above
    with rng_seam(spec["dseed"]):
        p2 = cfg.generate_phsp_p(N)
    for kk, v in p2.items():
        if not np.array_equal(np.array(v), P[str(kk)]):
            log.fail("memory-unaffected", "files|memory", "in-memory momenta changed during file operations")
    return compared


def run_lazy_config(spec, log, scratch):
    """the lazy options of the data section against the eager data of the same files"""
    import numpy as np

    from sim.seams import rng_seam
    from tf_pwa import data as D
    from tf_pwa.config_loader import ConfigLoader

    N = spec["N"]
    names = ["B", "C", "D"]
    order = [names[i] for i in spec["perm"]]
    card = copy.deepcopy(CARD)
    card["data"] = {"dat_order": order}
    cfg0 = ConfigLoader(copy.deepcopy(card))
    with rng_seam(spec["dseed"]):
        p = cfg0.generate_phsp_p(N)
    P = {str(k): np.array(v) for k, v in p.items()}
    arr = np.stack([P[k] for k in order]).transpose((1, 0, 2)).reshape((-1, 4))
    fn = os.path.join(scratch, "data." + spec["fmt"])
    if spec["fmt"] == "npy":
        np.save(fn, arr)
    else:
        np.savetxt(fn, arr)
    eager_card = copy.deepcopy(card)
    eager_card["data"]["data"] = [fn]
    eager = ConfigLoader(eager_card).get_data("data")[0]
    want = {}
    for k in names:
        pk = [kk for kk in eager["particle"] if str(kk) == k][0]
        want[("particle", k, "p")] = np.array(eager["particle"][pk]["p"])
        want[("particle", k, "m")] = np.array(eager["particle"][pk]["m"])
    lazy_card = copy.deepcopy(eager_card)
    lazy_card["data"].update({"lazy_call": True, "lazy_file": bool(spec["lazy_file"]), "lazy_prefetch": spec["prefetch"]})
    if spec["cache"] == "dir":
        os.makedirs(os.path.join(scratch, "lc"), exist_ok=True)
        lazy_card["data"]["cached_lazy_call"] = os.path.join(scratch, "lc") + "/"

    def make():
        return ConfigLoader(copy.deepcopy(lazy_card)).get_data("data")[0]

    lz = make()
    compared = 0

    def leaf(d, key):
        _, k, f = key
        pk = [kk for kk in d["particle"] if str(kk) == k][0]
        return np.array(d["particle"][pk][f])

    what = "lazy_call%s%s" % ("+lazy_file" if spec["lazy_file"] else "", "+cache" if spec["cache"] else "")
    for i, op in enumerate(spec["ops"]):
        k, b = op["k"], op["b"]
        log.count("op.cfg_" + k)
        try:
            if k in ("iterate", "restart"):
                if k == "restart":
                    lz = make()
                    log.count("probe.restart")
                parts = [dict(x) for x in D.data_split(lz, b)]
                sizes = [int(leaf(x, ("particle", "B", "m")).shape[0]) for x in parts]
                if sum(sizes) != N or any(sz != b for sz in sizes[:-1]) or len(sizes) != (N + b - 1) // b:
                    log.fail("lazy-equals-eager", "%s|%s|batch-sizes" % (what, k), "%s: iterating with batch=%d over %d events gave batch sizes %s" % (what, b, N, sizes), step=i)
                    raise Failure()
                for key, ref in want.items():
                    got = np.concatenate([leaf(x, key) for x in parts], axis=0)
                    if got.shape != ref.shape or not np.allclose(got, ref, rtol=1e-12, atol=1e-300):
                        log.fail("lazy-equals-eager", "%s|%s|content" % (what, k), "%s: lazily produced %s differs from the eager data of the same file (batch=%d)" % (what, key, b), step=i)
                        raise Failure()
                compared += 1
            elif k == "eval":
                ev = lz.eval()
                for key, ref in want.items():
                    if not np.allclose(leaf(ev, key), ref, rtol=1e-12, atol=1e-300):
                        log.fail("lazy-equals-eager", "%s|eval|content" % what, "%s: eval() content of %s differs from eager data" % (what, key), step=i)
                        raise Failure()
                compared += 1
            elif k == "batch_call":
                got = np.array(D.batch_call(lambda d: leaf(d, ("particle", "C", "m")), lz, batch=b))
                ref = want[("particle", "C", "m")]
                if got.shape != ref.shape or not np.allclose(got, ref, rtol=1e-12):
                    log.fail("batchwise-equals-whole", "%s|batch_call|content" % what, "%s: batch_call over lazy data (batch=%d) differs from eager data" % (what, b), step=i)
                    raise Failure()
                compared += 1
        except Failure:
            raise
        except Exception as e:
            import traceback

            tb = traceback.extract_tb(e.__traceback__)
            if "/verif/" in tb[-1].filename:
                raise
            log.fail("raised", "%s|%s|raised|%s" % (what, k, type(e).__name__), "%s: %s raised %s: %s" % (what, k, type(e).__name__, str(e)[:300]), step=i)
            raise Failure()
        log.state(k, b)
    return compared


def execute(spec):
    from sim.env import Log, Scratch

    log = Log(seed=spec.get("dseed"), prop="C18")
    compared = 0
    try:
        with Scratch("c18") as scratch:
            if spec["kind"] == "struct":
                compared = run_struct(spec, log)
            elif spec["kind"] == "lazy":
                compared = run_lazy(spec, log, scratch)
            elif spec["kind"] == "lazy_config":
                compared = run_lazy_config(spec, log, scratch)
            else:
                compared = run_files(spec, log, scratch)
    except Failure:
        compared = 2
    res = log.result(spec=spec, nontrivial=spec["N"] >= 2 and compared >= 2)
    res["opkinds"] = {k[3:]: v for k, v in log.counters.items() if k.startswith("op.")}
    res["opkinds"]["kind." + spec["kind"]] = 1
    return res


def run(job):
    spec = job["spec"] if job.get("mode") == "spec" else generate(job)
    return execute(spec)


def shrink_candidates(spec):
    for N in (1, 2, 3):
        if spec.get("N", 0) > N:
            s = copy.deepcopy(spec)
            s["N"] = N
            yield s
    if spec.get("fault"):
        s = copy.deepcopy(spec)
        del s["fault"]
        yield s
    for k in ("nested", "extra", "heavy"):
        if spec.get(k):
            s = copy.deepcopy(spec)
            s[k] = False
            yield s
    if spec.get("cache"):
        s = copy.deepcopy(spec)
        s["cache"] = None
        yield s

"""Worker interpreter: imports TensorFlow + tf_pwa once, then executes simulated sessions.

Protocol: one JSON job per line on stdin, one JSON result per line on the protocol fd (a dup of
the original stdout; fd 1 and 2 are redirected to a log file so that prints of the library can
never corrupt the protocol).  The worker never forks after importing TensorFlow.
"""
import faulthandler
import importlib
import json
import os
import sys
import traceback


def main():
    proto = os.fdopen(os.dup(1), "w", buffering=1)
    logpath = os.environ.get("VERIF_WORKER_LOG") or os.devnull
    lf = os.open(logpath, os.O_WRONLY | os.O_CREAT | os.O_APPEND, 0o644)
    os.dup2(lf, 1)
    os.dup2(lf, 2)
    sys.stdout = os.fdopen(1, "w", buffering=1, closefd=False)
    sys.stderr = os.fdopen(2, "w", buffering=1, closefd=False)
    faulthandler.enable(file=sys.stderr)

    from sim import env

    env.bootstrap()  # numpy alias, TF import with pinned threads, tf_pwa import
    proto.write(json.dumps({"ready": True, "hashseed": os.environ.get("PYTHONHASHSEED")}) + "\n")

    for line in sys.stdin:
        line = line.strip()
        if not line:
            continue
        job = json.loads(line)
        if job.get("cmd") == "exit":
            break
        res = {"id": job.get("id")}
        try:
            tmo = int(job.get("timeout", 0))
            if tmo:
                faulthandler.dump_traceback_later(tmo, exit=False, file=sys.stderr)
            mod = importlib.import_module("sim.props." + job["prop"].lower())
            env.isolate_begin()
            try:
                out = mod.run(job)
            finally:
                env.isolate_end()
            res.update(out)
            if isinstance(res.get("spec"), dict):
                res["spec"]["hashseed"] = int(os.environ.get("PYTHONHASHSEED", "0"))
            for f in res.get("failures") or []:
                if isinstance(f.get("spec"), dict):
                    f["spec"]["hashseed"] = int(os.environ.get("PYTHONHASHSEED", "0"))
            res["hashseed"] = int(os.environ.get("PYTHONHASHSEED", "0"))
            res.setdefault("status", "fail" if out.get("failures") else "ok")
        except BaseException as e:  # harness error: never a verdict
            if isinstance(e, (KeyboardInterrupt, SystemExit)):
                raise
            res["status"] = "error"
            res["error"] = "".join(traceback.format_exception(type(e), e, e.__traceback__))[-6000:]
        finally:
            faulthandler.cancel_dump_traceback_later()
        proto.write(json.dumps(res, default=str) + "\n")
    proto.close()


if __name__ == "__main__":
    main()

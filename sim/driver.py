"""Parent process: seeded search over simulated sessions on a pool of worker interpreters,
minimisation, replay confirmation, known-findings handling and evidence writing.

The parent never imports TensorFlow or tf_pwa.
"""
import argparse
import copy
import hashlib
import importlib
import json
import os
import queue
import re
import select
import shutil
import subprocess
import sys
import tempfile
import threading
import time

ROOT = os.path.dirname(os.path.dirname(os.path.abspath(__file__)))
PY = os.environ.get("VERIF_PYTHON", "/venv/bin/python")
DEFAULT_SEED = 20261004


def worker_env(hashseed, logpath):
    e = dict(os.environ)
    e.update(
        PYTHONHASHSEED=str(hashseed),
        TF_PWA_VERIF="1",
        CUDA_VISIBLE_DEVICES="",
        TF_NUM_INTRAOP_THREADS="1",
        TF_NUM_INTEROP_THREADS="1",
        OMP_NUM_THREADS="1",
        OPENBLAS_NUM_THREADS="1",
        MKL_NUM_THREADS="1",
        TF_CPP_MIN_LOG_LEVEL="3",
        MPLBACKEND="Agg",
        PYTHONDONTWRITEBYTECODE="1",
        PYTHONUNBUFFERED="1",
        VERIF_WORKER_LOG=logpath,
        TF_ENABLE_ONEDNN_OPTS="0",
    )
    pp = [ROOT]
    if os.environ.get("VERIF_REPO_OVERRIDE"):  # sensitivity runs on a scratch copy (dev only)
        pp.append(os.environ["VERIF_REPO_OVERRIDE"])
    if e.get("PYTHONPATH"):
        pp.append(e["PYTHONPATH"])
    e["PYTHONPATH"] = os.pathsep.join(pp)
    return e


class Worker:
    t_first_ready = None  # the session budget starts when the first interpreter has imported TensorFlow

    def __init__(self, idx, hashseed, logdir):
        self.idx = idx
        self.hashseed = hashseed
        self.logpath = os.path.join(logdir, "w%d.log" % idx)
        self.proc = None
        self.jobs_done = 0

    def start(self):
        self.proc = subprocess.Popen(
            [PY, "-m", "sim.worker"],
            stdin=subprocess.PIPE,
            stdout=subprocess.PIPE,
            cwd=ROOT,
            env=worker_env(self.hashseed, self.logpath),
            text=True,
            bufsize=1,
        )
        msg = self._readline(600)
        if not msg or not msg.get("ready"):
            raise RuntimeError("worker %d failed to start: %r\n%s" % (self.idx, msg, self.logtail()))
        if Worker.t_first_ready is None:
            Worker.t_first_ready = time.monotonic()

    def _readline(self, timeout):
        fd = self.proc.stdout
        deadline = time.monotonic() + timeout
        while True:
            left = deadline - time.monotonic()
            if left <= 0:
                return None
            r, _, _ = select.select([fd], [], [], min(left, 1.0))
            if r:
                line = fd.readline()
                if not line:
                    return {"dead": True}
                line = line.strip()
                if not line:
                    continue
                try:
                    return json.loads(line)
                except ValueError:
                    continue
            elif self.proc.poll() is not None:
                return {"dead": True}

    def run(self, job, timeout):
        if self.proc is None or self.proc.poll() is not None:
            self.start()
        job = dict(job)
        job["timeout"] = int(timeout)
        try:
            self.proc.stdin.write(json.dumps(job) + "\n")
            self.proc.stdin.flush()
        except (BrokenPipeError, OSError):
            self.kill()
            return {"id": job.get("id"), "status": "error", "error": "worker died before job\n" + self.logtail()}
        t0 = time.monotonic()
        res = self._readline(timeout + 15)
        if isinstance(res, dict):
            res["_wall"] = round(time.monotonic() - t0, 2)
        if res is None:
            tail = self.logtail()
            self.kill()
            return {"id": job.get("id"), "status": "timeout", "error": "timeout after %ss\n%s" % (timeout, tail)}
        if res.get("dead"):
            tail = self.logtail()
            self.kill()
            return {"id": job.get("id"), "status": "error", "error": "worker died\n" + tail}
        self.jobs_done += 1
        return res

    def logtail(self, n=3000):
        try:
            with open(self.logpath, "rb") as f:
                f.seek(0, 2)
                size = f.tell()
                f.seek(max(0, size - n))
                return f.read().decode("utf8", "replace")
        except OSError:
            return ""

    def kill(self):
        if self.proc is not None:
            try:
                self.proc.kill()
                self.proc.wait(10)
            except Exception:
                pass
        self.proc = None

    def stop(self):
        if self.proc is not None and self.proc.poll() is None:
            try:
                self.proc.stdin.write(json.dumps({"cmd": "exit"}) + "\n")
                self.proc.stdin.flush()
                self.proc.wait(10)
            except Exception:
                self.kill()
        self.proc = None


class Pool:
    """N workers; worker i runs under PYTHONHASHSEED = hashseeds[i % len]. Jobs may pin a hash seed."""

    def __init__(self, n, hashseeds=None):
        base = os.environ.get("VERIF_TMP") or ("/dev/shm" if os.path.isdir("/dev/shm") else tempfile.gettempdir())
        self.logdir = tempfile.mkdtemp(prefix="tfpwa_verif_logs_", dir=base)
        hashseeds = hashseeds or list(range(n))
        self.workers = [Worker(i, hashseeds[i % len(hashseeds)], self.logdir) for i in range(n)]

    def map(self, jobs, timeout=120, progress=None, deadline=None, min_done=0):
        """Run jobs (list of dicts) -> list of results in job order.  Jobs not started before the
        batch deadline are returned with status 'skipped' (budget), never counted as passed."""
        results = [None] * len(jobs)
        free_q = queue.Queue()
        pinned = {}
        for i, j in enumerate(jobs):
            j = dict(j)
            j["id"] = i
            if j.get("hashseed") is not None:
                pinned.setdefault(int(j["hashseed"]), queue.Queue()).put(j)
            else:
                free_q.put(j)
        lock = threading.Lock()
        done = [0]

        def loop(w):
            pq = None
            for hs, q in pinned.items():
                if hs == w.hashseed:
                    pq = q
            while True:
                job = None
                if pq is not None:
                    try:
                        job = pq.get_nowait()
                    except queue.Empty:
                        pq = None
                if job is None:
                    try:
                        job = free_q.get_nowait()
                    except queue.Empty:
                        return
                if deadline is not None and Worker.t_first_ready is not None and time.monotonic() > Worker.t_first_ready + deadline and done[0] >= min_done:
                    res = {"id": job["id"], "status": "skipped"}
                else:
                    try:
                        res = w.run(job, job.get("timeout", timeout))
                    except Exception as e:  # start failure
                        res = {"id": job["id"], "status": "error", "error": "worker start: %r" % (e,)}
                results[job["id"]] = res
                with lock:
                    done[0] += 1
                    if progress:
                        progress(done[0], len(jobs))

        # pinned hash seeds need a worker with that seed
        have = {w.hashseed for w in self.workers}
        for hs in pinned:
            if hs not in have:
                w = Worker(len(self.workers), hs, self.logdir)
                self.workers.append(w)
        ths = [threading.Thread(target=loop, args=(w,), daemon=True) for w in self.workers]
        for t in ths:
            t.start()
        for t in ths:
            t.join()
        return results

    def fresh_run(self, job, timeout=120, hashseed=None):
        """Execute one job in a brand-new interpreter (replay confirmation / shrinking)."""
        hs = hashseed if hashseed is not None else (job.get("hashseed") if job.get("hashseed") is not None else 0)
        w = Worker(9000 + len(os.listdir(self.logdir)), int(hs), self.logdir)
        try:
            j = dict(job)
            j["id"] = 0
            return w.run(j, timeout)
        finally:
            w.stop()

    def close(self):
        for w in self.workers:
            w.stop()
        shutil.rmtree(self.logdir, ignore_errors=True)


# --------------------------------------------------------------------------------------------


def load_known():
    p = os.path.join(ROOT, "known_findings.json")
    if not os.path.exists(p):
        return {"findings": [], "fixed": []}
    with open(p) as f:
        return json.load(f)


def match_known(known, prop, failure):
    for k in known.get("findings", []):
        if k.get("property") != prop:
            continue
        if k.get("oracle") and k["oracle"] != failure.get("oracle"):
            continue
        if k.get("key_regex"):
            if not re.fullmatch(k["key_regex"], failure.get("key", "")):
                continue
        elif k.get("key") is not None and k["key"] != failure.get("key"):
            continue
        return k
    return None


def sig(f):
    return (f.get("oracle"), f.get("key"))


def spec_size(spec):
    return len(json.dumps(spec, sort_keys=True))


def generic_candidates(spec):
    """ddmin-style deletions on spec['ops'] (a list); property modules add their own."""
    ops = spec.get("ops")
    if not isinstance(ops, list) or len(ops) <= 1:
        return
    n = len(ops)
    chunk = max(1, n // 2)
    while chunk >= 1:
        for start in range(0, n, chunk):
            s = copy.deepcopy(spec)
            s["ops"] = ops[:start] + ops[start + chunk :]
            if s["ops"]:
                yield s
        if chunk == 1:
            break
        chunk //= 2


def shrink(pool, mod, prop, spec, target_sig, timeout, budget_s=120, max_cand=200, workers=8):
    """Greedy delta debugging: accept a candidate only if the SAME oracle/key fails."""
    t0 = time.monotonic()
    tried = 0
    best = spec
    improved = True
    while improved and tried < max_cand and time.monotonic() - t0 < budget_s:
        improved = False
        cands = []
        gens = [generic_candidates(best)]
        if hasattr(mod, "shrink_candidates"):
            gens.append(mod.shrink_candidates(best))
        for g in gens:
            for c in g:
                if spec_size(c) < spec_size(best):
                    cands.append(c)
        # dedupe, smallest first
        seen = set()
        uniq = []
        for c in sorted(cands, key=spec_size):
            k = json.dumps(c, sort_keys=True)
            if k not in seen:
                seen.add(k)
                uniq.append(c)
        uniq = uniq[: max(1, min(len(uniq), max_cand - tried))]
        if not uniq:
            break
        # evaluate in batches on the pool (results do not depend on the worker: determinism self-test)
        for i in range(0, len(uniq), workers):
            batch = uniq[i : i + workers]
            jobs = [{"prop": prop, "mode": "spec", "spec": c, "hashseed": c.get("hashseed")} for c in batch]
            res = pool.map(jobs, timeout=timeout)
            tried += len(batch)
            hit = None
            for c, r in zip(batch, res):
                if r and r.get("status") == "fail" and any(sig(f) == target_sig for f in r.get("failures", [])):
                    hit = c
                    break
            if hit is not None:
                best = hit
                improved = True
                break
            if time.monotonic() - t0 > budget_s or tried >= max_cand:
                break
    return best, tried


def write_replay(prop, spec, failure, digest, seed):
    d = os.path.join(ROOT, "replays")
    os.makedirs(d, exist_ok=True)
    h = hashlib.sha256(json.dumps([spec, failure.get("oracle"), failure.get("key")], sort_keys=True).encode()).hexdigest()[:10]
    path = os.path.join(d, "%s-%s.json" % (prop, h))
    with open(path, "w") as f:
        json.dump(
            {
                "property": prop,
                "oracle": failure.get("oracle"),
                "key": failure.get("key"),
                "detail": failure.get("detail"),
                "step": failure.get("step"),
                "seed": seed,
                "hashseed": spec.get("hashseed", 0),
                "digest": digest,
                "spec": spec,
            },
            f,
            indent=1,
            sort_keys=True,
        )
    return path


def do_replay(prop, path, timeout=600):
    with open(path) as f:
        rp = json.load(f)
    pool = Pool(0)
    try:
        job = {"prop": prop, "mode": "spec", "spec": rp["spec"]}
        r = pool.fresh_run(job, timeout=timeout, hashseed=rp.get("hashseed", 0))
    finally:
        pool.close()
    if r.get("status") in ("error", "timeout"):
        print("HARNESS-ERROR replay: %s" % r.get("error", "")[-2000:])
        return 2
    want = (rp.get("oracle"), rp.get("key"))
    for f in r.get("failures", []):
        if sig(f) == want:
            same = r.get("digest") == rp.get("digest")
            print("replayed: oracle=%s key=%s step=%s digest_match=%s" % (f["oracle"], f["key"], f.get("step"), same))
            print("detail: %s" % f.get("detail"))
            print("VIOLATION property=%s replay=%s" % (prop, path))
            return 1
    print("replay did not reproduce (%d other failures)" % len(r.get("failures", [])))
    for f in r.get("failures", []):
        print("  other: %s %s" % (f.get("oracle"), f.get("key")))
    return 0


HASHSEEDS = [0, 1, 2, 3]


def assign_hashseeds(plan, jobs, prop):
    """PYTHONHASHSEED is part of the schedule: tf_pwa iterates sets of strings/particles, so the order of
    its own operations (and therefore which line the k-th line event is) depends on it.  Every job is
    pinned to one of a few hash seeds, derived from its seed, and runs only on workers started with it."""
    from sim.prng import derive

    hs = plan.get("hashseeds") or HASHSEEDS
    plan["hashseeds"] = hs
    for j in jobs:
        j.setdefault("prop", prop)
        if j.get("hashseed") is None:
            j["hashseed"] = hs[derive(j.get("seed", 0), "hashseed") % len(hs)]


def run_check(prop, tier, seed, workers, replay=None, budget=None, extra=None):
    t_start = time.monotonic()
    mod = importlib.import_module("sim.props." + prop.lower())
    if replay:
        return do_replay(prop, replay)
    known = load_known()
    plan = mod.plan(tier, seed)  # {"jobs":[...], "timeout":s, "budget_s":s, "level":..., ...}
    jobs = plan["jobs"]
    if os.environ.get("VERIF_JOB_FILTER"):  # development aid, e.g. kind=traced
        k, v = os.environ["VERIF_JOB_FILTER"].split("=")
        jobs = [j for j in jobs if str(j.get(k)) == v]
        plan["min_executed"] = 1
    if os.environ.get("VERIF_MAX_JOBS"):
        jobs = jobs[: int(os.environ["VERIF_MAX_JOBS"])]
        plan["min_executed"] = 1
    assign_hashseeds(plan, jobs, prop)
    timeout = plan.get("timeout", 120)
    budget_s = budget or plan.get("budget_s")
    deadline = budget_s if budget_s else None  # seconds after the first worker is ready (cold TF import is not session time)
    nworkers = min(workers, max(1, len(jobs)))
    pool = Pool(nworkers, hashseeds=plan.get("hashseeds"))
    rc = 0
    try:
        last = [0.0]

        def progress(d, n):
            now = time.monotonic()
            if now - last[0] > 20:
                last[0] = now
                print("[%s %s] %d/%d sessions  %.0fs" % (prop, tier, d, n, now - t_start), flush=True)

        results = pool.map(jobs, timeout=timeout, progress=progress, deadline=deadline, min_done=plan.get("min_executed", 1) + 5)

        # retry harness timeouts/errors once in a fresh interpreter (load spikes), then classify
        harness_errors = []
        retried = 0
        for i, r in enumerate(results):
            if r is None:
                results[i] = r = {"status": "error", "error": "no result"}
            if r.get("status") in ("error", "timeout"):
                if retried >= 6:  # systematic harness failure: do not spend the budget on retries
                    harness_errors.append((jobs[i], r))
                    continue
                retried += 1
                r2 = pool.fresh_run(jobs[i], timeout=timeout * 3)
                if r2.get("status") in ("error", "timeout"):
                    harness_errors.append((jobs[i], r2))
                results[i] = r2

        executed = [(j, r) for j, r in zip(jobs, results) if r.get("status") in ("ok", "fail")]
        skipped = sum(1 for r in results if r.get("status") == "skipped")

        # group failures
        groups = {}
        for j, r in executed:
            for f in r.get("failures", []):
                groups.setdefault(sig(f), []).append((j, r, f))
        cross_pairs = 0
        if hasattr(mod, "cross_check"):  # parent-side comparison across interpreters (hash seeds)
            extra, cross_pairs = mod.cross_check(executed)
            for j, r, f in extra:
                groups.setdefault(sig(f), []).append((j, r, f))
        violations = []
        known_hits = {}
        if os.environ.get("VERIF_LIST_ONLY"):  # development aid: list failure groups, no shrinking
            for s, items in sorted(groups.items(), key=lambda kv: str(kv[0])):
                print("GROUP n=%d %s | %s  seeds=%s\n      %s" % (len(items), s[0], s[1], [it[0].get("seed") for it in items[:3]], items[0][2].get("detail", "")[:400]))
            for j, r in zip(jobs, results):
                if r.get("status") in ("error", "timeout"):
                    print("ERR", {k: v for k, v in j.items() if k != "spec"}, r.get("error", "")[-900:])
            print("executed=%d skipped=%d wall=%.0f" % (len(executed), skipped, time.monotonic() - t_start))
            return 3
        shrunk = 0
        for s, items in sorted(groups.items(), key=lambda kv: str(kv[0])):
            k = match_known(known, prop, items[0][2])
            if k is not None:
                known_hits.setdefault(k.get("id", k.get("what")), [k, 0])[1] += len(items)
                continue
            # smallest failing spec first
            items.sort(key=lambda it: spec_size(it[1].get("spec", {})))
            j, r, f = items[0]
            spec = f.get("spec") or r.get("spec")
            if spec is None:
                harness_errors.append((j, {"error": "failure without spec"}))
                continue
            sh_budget = plan.get("shrink_s", 90)
            if shrunk < plan.get("max_shrinks", 4) and spec.get("kind") != "enum":
                small, tried = shrink(pool, mod, prop, spec, s, timeout, budget_s=sh_budget, workers=nworkers)
                shrunk += 1
            else:
                small, tried = spec, 0
            conf = pool.fresh_run({"prop": prop, "mode": "spec", "spec": small}, timeout=timeout * 3, hashseed=small.get("hashseed"))
            cf = [x for x in conf.get("failures", []) if sig(x) == s] if conf.get("status") == "fail" else []
            if not cf:
                # fall back to the unshrunk spec
                conf = pool.fresh_run({"prop": prop, "mode": "spec", "spec": spec}, timeout=timeout * 3, hashseed=spec.get("hashseed"))
                cf = [x for x in conf.get("failures", []) if sig(x) == s] if conf.get("status") == "fail" else []
                small = spec
            if not cf:
                try:  # keep everything we know about a failure that a fresh interpreter does not show
                    os.makedirs(os.path.join(ROOT, "replays"), exist_ok=True)
                    with open(os.path.join(ROOT, "replays", "unreproduced-%s-%s.json" % (prop, j.get("seed"))), "w") as fh:
                        json.dump({"job": j, "failure": f, "spec": spec, "all_failures": r.get("failures")}, fh, indent=1, default=str)
                except Exception:
                    pass
                harness_errors.append((j, {"error": "failure %s did not reproduce in a fresh interpreter: %s" % (s, f.get("detail"))}))
                continue
            path = write_replay(prop, small, cf[0], conf.get("digest"), seed)
            violations.append((s, cf[0], path, len(items), tried))

        # ---------------- evidence
        ev = build_evidence(prop, tier, seed, plan, jobs, results, executed, skipped, violations, known_hits, harness_errors, time.monotonic() - t_start, nworkers)
        if cross_pairs:
            ev["coverage"]["schedules_compared_across_hash_seeds"] = cross_pairs
        if hasattr(mod, "evidence_extra"):
            try:
                mod.evidence_extra(ev, executed)
            except Exception as e:
                ev["coverage"]["evidence_extra_error"] = repr(e)
        os.makedirs(os.path.join(ROOT, "evidence"), exist_ok=True)
        with open(os.path.join(ROOT, "evidence", prop + ".json"), "w") as f:
            json.dump(ev, f, indent=1, sort_keys=True)

        slow = sorted(((r.get("_wall", 0), j) for j, r in executed), key=lambda x: -x[0])[:3]
        print("slowest sessions: " + "; ".join("%.0fs %s" % (w, {k: v for k, v in j.items() if k in ("seed", "kind", "klass", "method", "unit")}) for w, j in slow))
        print(
            "[%s %s] sessions=%d executed=%d skipped(budget)=%d distinct=%d wall=%.0fs"
            % (prop, tier, len(jobs), len(executed), skipped, ev["coverage"]["distinct_nontrivial"], time.monotonic() - t_start)
        )
        for kid, (k, n) in sorted(known_hits.items()):
            print("KNOWN-FINDING: property=%s %s (%d sessions)" % (prop, k.get("what"), n))
        for s, f, path, n, tried in violations:
            print("violation oracle=%s key=%s sessions=%d shrink_candidates=%d" % (s[0], s[1], n, tried))
            print("  detail: %s" % f.get("detail"))
            print("VIOLATION property=%s replay=%s" % (prop, path))
            rc = 1
        if harness_errors:
            for j, r in harness_errors[:5]:
                print("HARNESS-ERROR job=%s: %s" % (json.dumps({k: v for k, v in j.items() if k != "spec"})[:300], str(r.get("error"))[-3000:]))
            if rc == 0:
                rc = 2
        if not executed and rc == 0:
            print("HARNESS-ERROR: nothing executed")
            rc = 2
        min_exec = plan.get("min_executed", 1)
        if len(executed) < min_exec and rc == 0:
            print("HARNESS-ERROR: only %d sessions executed (< %d)" % (len(executed), min_exec))
            rc = 2
    finally:
        pool.close()
    return rc


def build_evidence(prop, tier, seed, plan, jobs, results, executed, skipped, violations, known_hits, harness_errors, wall, nworkers):
    counters = {}
    states = set()
    digests = set()
    nontrivial = set()
    steps = 0
    opkinds = {}
    samples = []
    hashseeds = set()
    for j, r in executed:
        for k, v in (r.get("counters") or {}).items():
            counters[k] = counters.get(k, 0) + v
        states.update(r.get("states") or [])
        steps += r.get("steps", 0)
        d = r.get("digest")
        digests.add(d)
        if r.get("nontrivial"):
            nontrivial.add(r.get("schedule_digest") or d)
        for k, v in (r.get("opkinds") or {}).items():
            opkinds[k] = opkinds.get(k, 0) + v
        if r.get("hashseed") is not None:
            hashseeds.add(r.get("hashseed"))
    for j, r in executed:
        if r.get("nontrivial") and r.get("spec") is not None and len(samples) < 3:
            samples.append({"job": {k: v for k, v in j.items() if k not in ("spec",)}, "schedule": r.get("spec"), "digest": r.get("digest")})
    if not samples:
        for j, r in executed[:1]:
            samples.append({"job": j, "schedule": r.get("spec"), "digest": r.get("digest")})
    seeds = [j.get("seed") for j in jobs if j.get("seed") is not None]
    faults = {k[len("fault."):]: v for k, v in counters.items() if k.startswith("fault.")}
    probes = {k[len("probe."):]: v for k, v in counters.items() if k.startswith("probe.")}
    ev = {
        "property_id": prop,
        "tier": tier,
        "seed": int(seed),
        "level": plan.get("level", "exploration"),
        "wall_s": round(wall, 2),
        "violations": len(violations),
        "coverage": {
            "evaluations": len(executed),
            "distinct_nontrivial": len(nontrivial),
            "rule": plan.get("rule", ""),
            "samples": samples,
            "sessions_planned": len(jobs),
            "sessions_skipped_for_budget": skipped,
            "runs_per_hour": round(len(executed) / max(wall, 1e-9) * 3600),
            "seeds": {"first": min(seeds) if seeds else None, "last": max(seeds) if seeds else None, "count": len(seeds)},
            "steps_total": steps,
            "simulated_time_note": "the system has no timers; simulated time is counted in scheduler steps (logged events)",
            "faults_fired": faults,
            "probes": probes,
            "other_counters": {k: v for k, v in counters.items() if not k.startswith(("fault.", "probe."))},
            "distinct_schedule_digests": len(digests),
            "distinct_abstract_states": len(states),
            "operation_kinds": opkinds,
            "workers": nworkers,
            "worker_hash_seeds": sorted(hashseeds),
            "real_vs_stub": plan.get("real_vs_stub", {}),
            "known_findings": [{"what": k.get("what"), "sessions": n} for k, n in known_hits.values()],
            "violation_list": [{"oracle": s[0], "key": s[1], "replay": os.path.relpath(p, ROOT), "sessions": n} for s, f, p, n, t in violations],
            "harness_errors": len(harness_errors),
        },
        "assumptions": plan.get("assumptions", [])
        + [
            "numpy.Inf alias installed in the harness process before importing tf_pwa (NumPy 2 removed it; tf_pwa/fit_improve.py:101 needs it)",
            "TensorFlow pinned to one intra-op and one inter-op thread, CPU only; native TF threads are not scheduled by the simulator",
        ],
    }
    return ev


def dettest(prop, tier, seed, workers, n):
    """Determinism self-test: the same jobs twice, on different workers, in different order, under
    different PYTHONHASHSEEDs and worker counts; event-log digests must be identical."""
    mod = importlib.import_module("sim.props." + prop.lower())
    plan = mod.plan(tier, seed)
    jobs = plan["jobs"]
    kinds = {}
    for j in jobs:
        kinds.setdefault(j.get("kind"), []).append(j)
    sel = []
    for k, js in sorted(kinds.items(), key=lambda kv: str(kv[0])):
        sel += js[: max(1, n // max(1, len(kinds)))]
    assign_hashseeds(plan, sel, prop)
    timeout = plan.get("timeout", 120)
    print("dettest %s: %d jobs x 3 runs" % (prop, len(sel)), flush=True)
    runs = []
    for nw, order in ((workers, 1), (max(4, workers // 2), -1), (workers, 1)):
        pool = Pool(nw, hashseeds=plan["hashseeds"])
        try:
            js = sel[::order]
            res = pool.map(js, timeout=timeout)
            if order == -1:
                res = res[::-1]
            runs.append(res)
        finally:
            pool.close()
    # replay form: the recorded explicit schedule (spec) executed alone in a brand-new interpreter must give
    # the digest of the seed-driven run inside a warm worker (what replay files rely on)
    nrep = min(len(sel), int(os.environ.get("VERIF_DETTEST_REPLAYS", "8")))
    step = max(1, len(sel) // max(1, nrep))
    rep_idx = list(range(0, len(sel), step))[:nrep]
    rep_bad = 0
    pool = Pool(0)
    try:
        for i in rep_idx:
            sp = runs[0][i].get("spec")
            if sp is None:
                continue
            r = pool.fresh_run({"prop": prop, "mode": "spec", "spec": sp}, timeout=timeout * 3, hashseed=sel[i].get("hashseed", 0))
            if r.get("digest") != runs[0][i].get("digest"):
                rep_bad += 1
                print("REPLAY-DIFFERS", {k: v for k, v in sel[i].items() if k != "spec"}, runs[0][i].get("digest"), r.get("digest"), r.get("status"), str(r.get("error", ""))[-300:])
    finally:
        pool.close()
    print("dettest %s: %d/%d recorded schedules give the same digest when replayed alone in a fresh interpreter" % (prop, len(rep_idx) - rep_bad, len(rep_idx)))
    bad = rep_bad
    for i, j in enumerate(sel):
        ds = [r[i].get("digest") for r in runs]
        st = [r[i].get("status") for r in runs]
        if len(set(ds)) != 1 or any(x not in ("ok", "fail") for x in st):
            bad += 1
            print("NONDETERMINISTIC", {k: v for k, v in j.items() if k != "spec"}, ds, st, [str(r[i].get("error", ""))[-300:] for r in runs])
    print("dettest %s: %d/%d jobs identical across 3 runs (different worker counts, job order and worker histories; hash seed pinned per job)" % (prop, len(sel) - (bad - rep_bad), len(sel)))
    return 0 if bad == 0 else 2


def main(argv=None):
    ap = argparse.ArgumentParser()
    ap.add_argument("prop")
    ap.add_argument("--tier", default=os.environ.get("VERIF_TIER", "quick"), choices=["quick", "thorough"])
    ap.add_argument("--replay")
    ap.add_argument("--workers", type=int, default=int(os.environ.get("VERIF_WORKERS", min(16, os.cpu_count() or 4))))
    ap.add_argument("--budget", type=float, default=None)
    ap.add_argument("--dettest", type=int, default=0, help="determinism self-test on N jobs of the plan")
    a = ap.parse_args(argv)
    seed = int(os.environ.get("VERIF_SEED", DEFAULT_SEED))
    prop = a.prop.upper()
    print("VERIF_SEED=%d property=%s tier=%s" % (seed, prop, a.tier), flush=True)
    if a.dettest:
        sys.exit(dettest(prop, a.tier, seed, a.workers, a.dettest))
    rc = run_check(prop, a.tier, seed, a.workers, replay=a.replay, budget=a.budget)
    sys.exit(rc)


if __name__ == "__main__":
    main()

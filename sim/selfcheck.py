"""setup_cmd: offline sanity build — imports, NumPy alias, seam installation, a determinism smoke.

Nothing is compiled or downloaded; the framework is plain Python run by /venv/bin/python against the
editable install of /repo.  Exit status 0 = usable.
"""
import os
import sys

os.environ.setdefault("CUDA_VISIBLE_DEVICES", "")
os.environ.setdefault("TF_CPP_MIN_LOG_LEVEL", "3")
os.environ.setdefault("TF_NUM_INTRAOP_THREADS", "1")
os.environ.setdefault("TF_NUM_INTEROP_THREADS", "1")
os.environ.setdefault("TF_ENABLE_ONEDNN_OPTS", "0")
sys.path.insert(0, os.path.dirname(os.path.dirname(os.path.abspath(__file__))))


def main():
    from sim import env

    env.bootstrap()
    import tf_pwa

    print("tf_pwa imported from", os.path.dirname(tf_pwa.__file__))
    from sim.props import c17

    digs = []
    for rep in range(2):
        env.isolate_begin()
        r = c17.run({"mode": "seed", "kind": "history", "seed": 7, "faults": 1})
        env.isolate_end()
        if r.get("failures"):
            print("note: smoke session reports", [f["key"] for f in r["failures"]])
        digs.append(r["digest"])
    if digs[0] != digs[1]:
        print("selfcheck: NONDETERMINISTIC smoke session", digs)
        return 1
    print("selfcheck ok: digest", digs[0])
    return 0


if __name__ == "__main__":
    sys.exit(main())

"""Harness-side seams.  Nothing here edits /repo: module attributes are patched from outside.

rng   : tf.random.uniform/normal and np.random.* draw from a seeded or scripted source and are recorded
exc   : sys.settrace based fault injector for Python line events inside tf_pwa/
fs    : file-size limit / open interposition helpers
"""
import contextlib
import os
import sys

import numpy as np


class InjectedFault(Exception):
    """the simulated 'something raised here' (e.g. a failing kernel, allocation or user callback)"""


class InjectedInterrupt(BaseException):
    """the Ctrl-C analogue: a BaseException that `except Exception` does not catch"""


def tfpwa_dir():
    import tf_pwa

    return os.path.dirname(os.path.realpath(tf_pwa.__file__)) + os.sep


# ------------------------------------------------------------------------------------------ rng


class RngSource:
    """Uniform source: scripted values first (per role), then a seeded PCG64 stream."""

    def __init__(self, seed, script=None, record=None):
        self.gen = np.random.Generator(np.random.PCG64(int(seed) & ((1 << 63) - 1)))
        self.script = script  # callable(role, shape, call_index, default_array) -> array or None
        self.record = record  # list to append (role, shape) to
        self.calls = 0

    def uniform(self, role, shape, lo=0.0, hi=1.0):
        shape = tuple(int(i) for i in np.reshape(np.array(shape, dtype=np.int64), (-1,)))
        u = self.gen.random(size=shape)
        if self.script is not None:
            v = self.script(role, shape, self.calls, u)
            if v is not None:
                u = np.asarray(v, dtype=np.float64).reshape(shape)
        self.calls += 1
        if self.record is not None:
            self.record.append((role, shape))
        return lo + (hi - lo) * u

    def normal(self, role, shape):
        shape = tuple(int(i) for i in np.reshape(np.array(shape, dtype=np.int64), (-1,)))
        self.calls += 1
        if self.record is not None:
            self.record.append((role, shape))
        return self.gen.standard_normal(size=shape)


def _caller_role(depth=2):
    f = sys._getframe(depth)
    d = tfpwa_dir()
    while f is not None:
        fn = f.f_code.co_filename
        if fn.startswith(d) or "/sim/" in fn:
            return f.f_code.co_name
        f = f.f_back
    return "?"


@contextlib.contextmanager
def rng_seam(seed, script=None, record=None):
    """All random draws of tf_pwa come from the simulator while this is active."""
    import random as pyrandom

    import tensorflow as tf

    src = seed if isinstance(seed, RngSource) else RngSource(seed, script, record)

    def tf_uniform(shape, minval=0, maxval=None, dtype=tf.float32, seed=None, name=None):
        dt = tf.as_dtype(dtype)
        if maxval is None:
            maxval = 1
        role = _caller_role()
        if dt.is_integer:
            u = src.uniform(role, shape)
            return tf.constant(np.floor(minval + (maxval - minval) * u).astype(dt.as_numpy_dtype))
        u = src.uniform(role, shape)
        lo = np.asarray(minval, dtype=np.float64)
        hi = np.asarray(maxval, dtype=np.float64)
        return tf.constant((lo + (hi - lo) * u).astype(dt.as_numpy_dtype))

    def tf_normal(shape, mean=0.0, stddev=1.0, dtype=tf.float32, seed=None, name=None):
        dt = tf.as_dtype(dtype)
        z = src.normal(_caller_role(), shape)
        return tf.constant((mean + stddev * z).astype(dt.as_numpy_dtype))

    def np_random(size=None):
        role = _caller_role()
        if size is None:
            return float(src.uniform(role, ())[()])
        return src.uniform(role, size if isinstance(size, (tuple, list)) else (size,))

    def np_uniform(low=0.0, high=1.0, size=None):
        role = _caller_role()
        if size is None:
            shape = np.broadcast(np.asarray(low), np.asarray(high)).shape
            u = src.uniform(role, shape)
            out = np.asarray(low) + (np.asarray(high) - np.asarray(low)) * u
            return float(out) if out.shape == () else out
        shape = size if isinstance(size, (tuple, list)) else (size,)
        return np.asarray(low) + (np.asarray(high) - np.asarray(low)) * src.uniform(role, shape)

    def np_normal(loc=0.0, scale=1.0, size=None):
        role = _caller_role()
        if size is None:
            return float(loc + scale * src.normal(role, ())[()])
        shape = size if isinstance(size, (tuple, list)) else (size,)
        return loc + scale * src.normal(role, shape)

    def np_chisquare(df, size=None):
        role = _caller_role()
        k = int(round(df))
        if size is None:
            return float(np.sum(src.normal(role, (max(k, 1),)) ** 2))
        shape = size if isinstance(size, (tuple, list)) else (size,)
        return np.sum(src.normal(role, tuple(shape) + (max(k, 1),)) ** 2, axis=-1)

    def np_rand(*shape):
        return np_random(shape if shape else None)

    def py_random():
        return float(src.uniform(_caller_role(), ())[()])

    def np_shuffle(x):
        # in-place permutation decided by one uniform per element (argsort of the draws)
        n = len(x)
        perm = np.argsort(src.uniform(_caller_role(), (n,)), kind="stable")
        if isinstance(x, np.ndarray):
            x[...] = x[perm]
        else:
            x[:] = [x[i] for i in perm]

    def np_poisson(lam=1.0, size=None):
        role = _caller_role()

        def one(l):
            l = float(l)
            if l <= 0:
                return 0
            if l > 50:  # normal approximation is good enough for a simulated count
                return int(max(0, round(l + np.sqrt(l) * float(src.normal(role, ())[()]))))
            k, p, lim = 0, 1.0, np.exp(-l)
            while True:
                p *= float(src.uniform(role, ())[()])
                if p <= lim:
                    return k
                k += 1

        if size is None and np.ndim(lam) == 0:
            return one(lam)
        shape = np.shape(lam) if size is None else (tuple(size) if isinstance(size, (tuple, list)) else (size,))
        lam_b = np.broadcast_to(np.asarray(lam, dtype=float), shape)
        return np.array([one(l) for l in lam_b.reshape(-1)], dtype=np.int64).reshape(shape)

    patches = [
        (tf.random, "uniform", tf_uniform),
        (tf.random, "normal", tf_normal),
        (np.random, "random", np_random),
        (np.random, "random_sample", np_random),
        (np.random, "rand", np_rand),
        (np.random, "uniform", np_uniform),
        (np.random, "normal", np_normal),
        (np.random, "chisquare", np_chisquare),
        (pyrandom, "random", py_random),
        (np.random, "shuffle", np_shuffle),
        (np.random, "poisson", np_poisson),
    ]
    saved = [(o, n, getattr(o, n)) for o, n, _ in patches]
    for o, n, f in patches:
        setattr(o, n, f)
    try:
        yield src
    finally:
        for o, n, f in saved:
            setattr(o, n, f)


# ------------------------------------------------------------------------------------------ exc


_FINALLY_CACHE = {}


def _finally_ranges(filename):
    """line ranges of all `finally:` bodies (and `__exit__`-like restore code is not guessed) of a file"""
    if filename not in _FINALLY_CACHE:
        import ast

        rng = []
        try:
            with open(filename) as f:
                tree = ast.parse(f.read())
            for node in ast.walk(tree):
                if isinstance(node, ast.Try) and node.finalbody:
                    lo = node.finalbody[0].lineno
                    hi = max(getattr(n, "end_lineno", n.lineno) for n in node.finalbody)
                    rng.append((lo, hi))
        except Exception:
            pass
        _FINALLY_CACHE[filename] = rng
    return _FINALLY_CACHE[filename]


def stack_in_finally(frame, prefix):
    """True if some tf_pwa frame on the stack is currently executing inside a `finally:` body, i.e. the
    fault hits the restore code itself (a double fault no save/restore code can survive)"""
    f = frame
    while f is not None:
        fn = f.f_code.co_filename
        if fn.startswith(prefix):
            for lo, hi in _finally_ranges(fn):
                if lo <= f.f_lineno <= hi:
                    return True
        f = f.f_back
    return False


class LineTracer:
    """Counts `line` events in frames whose code lives under tf_pwa/ and raises at the k-th one.

    fire_at: 1-based dynamic index of the line event at which to raise (None = dry run)
    """

    def __init__(self, fire_at=None, exc_type=InjectedFault, record=False, only_file=None):
        self.prefix = tfpwa_dir()
        self.fire_at = fire_at
        self.exc_type = exc_type
        self.record = record
        self.n = 0
        self.first = {}  # site -> first dynamic index
        self.last = {}
        self.fired = None
        self.only_file = only_file
        self._old = None
        self.paused = 0
        self._active = False

    def _global(self, frame, event, arg):
        if event == "call" and not self.paused:
            fn = frame.f_code.co_filename
            if fn.startswith(self.prefix) and "/tests/" not in fn:
                return self._local
        return None

    def _local(self, frame, event, arg):
        if event == "line" and not self.paused:
            self.n += 1
            if self.record:
                site = (frame.f_code.co_filename[len(self.prefix):], frame.f_lineno)
                if site not in self.first:
                    self.first[site] = self.n
                self.last[site] = self.n
            if self.fire_at is not None and self.n == self.fire_at and self.fired is None:
                self.fired = {
                    "file": frame.f_code.co_filename[len(self.prefix):],
                    "line": frame.f_lineno,
                    "func": frame.f_code.co_name,
                    "index": self.n,
                    "in_restore": stack_in_finally(frame, self.prefix),
                }
                sys.settrace(None)
                raise self.exc_type("injected at %s:%d (%s)" % (self.fired["file"], self.fired["line"], self.fired["func"]))
        return self._local

    @contextlib.contextmanager
    def pause(self):
        """oracle code runs here: neither counted nor eligible for injection"""
        self.paused += 1
        active = self._active
        if active:
            sys.settrace(None)
        try:
            yield
        finally:
            self.paused -= 1
            if active and self.paused == 0 and self.fired is None and self._active:
                sys.settrace(self._global)

    def __enter__(self):
        self._old = sys.gettrace()
        self._active = True
        sys.settrace(self._global)
        return self

    def __exit__(self, *a):
        self._active = False
        sys.settrace(self._old)
        return False


# ------------------------------------------------------------------------------------------ fs


@contextlib.contextmanager
def file_size_limit(nbytes):
    """Every write beyond `nbytes` per file fails with EFBIG (native writers included)."""
    import resource
    import signal

    old_sig = signal.signal(signal.SIGXFSZ, signal.SIG_IGN)
    soft, hard = resource.getrlimit(resource.RLIMIT_FSIZE)
    resource.setrlimit(resource.RLIMIT_FSIZE, (int(nbytes), hard))
    try:
        yield
    finally:
        resource.setrlimit(resource.RLIMIT_FSIZE, (soft, hard))
        signal.signal(signal.SIGXFSZ, old_sig)


# ------------------------------------------------------------------------------------------ ids


class IdSeam:
    """Deterministic replacement for the builtin `id` inside the tf_pwa modules that key caches by object
    address (amp/amp.py, model/opt_int.py, model/cfit.py).

    Default: every object gets a fresh serial number and is kept alive, i.e. *no* address reuse ever
    happens (CPython may or may not reuse addresses; which one happens is allocator nondeterminism that
    would break replay).  Fault mode: `schedule_reuse()` makes the next never-seen object receive the
    serial of an object that is provably dead in the real world (nothing but this seam references it),
    which is exactly the freedom the allocator has.
    """

    MODULES = ("tf_pwa.amp.amp", "tf_pwa.model.opt_int", "tf_pwa.model.cfit")

    def __init__(self):
        self.objs = {}  # real id -> (serial, obj)
        self.next = 1000
        self.reuse_pending = 0
        self.reused = 0
        self.installed = False

    def __call__(self, obj):
        import builtins

        rid = builtins.id(obj)
        ent = self.objs.get(rid)
        if ent is not None and ent[1] is obj:
            return ent[0]
        serial = None
        if self.reuse_pending:
            dead = self.dead_serials(type(obj))
            if dead:
                serial = dead[-1][0]
                del self.objs[dead[-1][1]]
                self.reuse_pending -= 1
                self.reused += 1
        if serial is None:
            self.next += 8
            serial = self.next
        self.objs[rid] = (serial, obj)
        return serial

    def dead_serials(self, typ=None):
        """serials of tracked objects that only the seam keeps alive (refcount: dict tuple + getrefcount arg + loop var)"""
        out = []
        for rid, (serial, obj) in list(self.objs.items()):
            if typ is not None and type(obj) is not typ:
                continue
            if sys.getrefcount(obj) <= 3:
                out.append((serial, rid))
        out.sort()
        return out

    def schedule_reuse(self, n=1):
        self.reuse_pending += n

    def reset(self):
        self.objs.clear()
        self.next = 1000
        self.reuse_pending = 0
        self.reused = 0

    def install(self):
        import importlib

        for m in self.MODULES:
            mod = importlib.import_module(m)
            mod.id = self
        self.installed = True


ID_SEAM = IdSeam()


# ------------------------------------------------------------------------------------------ minimiser


@contextlib.contextmanager
def iteration_cap(k, methods=("Newton-CG", "trust-ncg", "trust-krylov", "trust-exact")):
    """The minimiser stops early: SciPy's own iteration limit is set to `k` for the Newton-type methods,
    which tf_pwa calls without any limit.  Patches the name `minimize` as tf_pwa.fit sees it; SciPy itself
    runs unchanged and reports success=False / "maximum number of iterations" on its own."""
    import tf_pwa.fit as tfit

    orig = tfit.minimize
    state = {"capped": 0}

    def minimize(fun, x0, *a, **kw):
        if kw.get("method") in methods:
            opt = dict(kw.get("options") or {})
            opt["maxiter"] = min(int(opt.get("maxiter") or k), int(k))
            kw["options"] = opt
            state["capped"] += 1
        return orig(fun, x0, *a, **kw)

    tfit.minimize = minimize
    try:
        yield state
    finally:
        tfit.minimize = orig

#!/bin/sh
# dev tool: ./tools_mutant.sh <seeded-dir> <Cxx> [tier] — run a check against a seeded change WITHOUT touching /repo:
# the patch is applied to a scratch worktree that is put in front of the import path; evidence is restored afterwards.
d=$1; p=$2; t=${3:-quick}
cd /verif || exit 2
wt=/tmp/tm_$(basename $d)_$$
git -C /repo worktree add --detach $wt HEAD >/dev/null 2>&1 || exit 2
( cd $wt && git apply /verif/$d/patch.diff ) || { git -C /repo worktree remove --force $wt; echo "patch does not apply"; exit 2; }
cp evidence/$p.json /tmp/ev_$p_$$.json 2>/dev/null
VERIF_REPO_OVERRIDE=$wt ./check $p --tier $t > /tmp/mutant_$(basename $d)_$p.log 2>&1
rc=$?
cp /tmp/ev_$p_$$.json evidence/$p.json 2>/dev/null; rm -f /tmp/ev_$p_$$.json
git -C /repo worktree remove --force $wt
echo "mutant $d check $p rc=$rc"; grep -E "VIOLATION|HARNESS|violation oracle" /tmp/mutant_$(basename $d)_$p.log | head -8

#!/bin/sh
# dev tool: ./tools_mutant.sh <seeded-dir> <Cxx> [tier]  — apply a seeded change to /repo, run the check, undo.
d=$1; p=$2; t=${3:-quick}
cd /repo || exit 2
if [ -n "$(git status --porcelain -- tf_pwa)" ]; then echo "repo not clean"; exit 2; fi
git apply /verif/$d/patch.diff || exit 2
cd /verif
./check $p --tier $t > /tmp/mutant_$(basename $d)_$p.log 2>&1
rc=$?
cd /repo && git checkout -- . 
echo "mutant $d check $p rc=$rc"; grep -E "VIOLATION|KNOWN-FINDING|HARNESS|violation oracle" /tmp/mutant_$(basename $d)_$p.log | head -8
# restore evidence from the unchanged tree later

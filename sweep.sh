#!/bin/sh
# dev tool: run the quick tier of the given checks under several VERIF_SEED values; prints one line per run
props="$1"; seeds="$2"
for p in $props; do for s in $seeds; do
  out=$(VERIF_SEED=$s ./check $p --tier quick 2>&1); rc=$?
  echo "$p seed=$s rc=$rc $(echo "$out" | grep -c VIOLATION) violations; $(echo "$out" | grep -E 'violation oracle|HARNESS' | head -3 | tr '\n' ' ')"
done; done
